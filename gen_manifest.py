#!/usr/bin/env python3
# Generates MANIFEST.json from the table below (kept in one place so it stays valid).
import json
checks = json.load(open('manifest_checks.json'))
props = [json.loads(l)['id'] for l in open('properties.jsonl')]
claimed = [c['property_id'] for c in checks['checks']]
na = [n for n in checks['not_applicable'] if n['property_id'] not in claimed]
for p in props:
    if p not in claimed and p not in [n['property_id'] for n in na]:
        na.append({"property_id": p, "reason": "check not built yet (work in progress; not claimed)"})
m = {
 "version": 1,
 "setup_cmd": "./setup.sh",
 "hooks": {
  "guard": "verif",
  "enable": "no in-repo hooks: instrumentation (sync shim, scheduling points) is injected at build time with 'go build -overlay' generated from /repo's working tree; the plain checker links the unmodified packages",
  "baseline_off_cmd": "cd /repo && go test -count=1 ./...",
  "source_commits": [],
  "add_only": True
 },
 "engines": checks['engines'],
 "checks": [],
 "notes": checks['notes'],
 "not_applicable": na,
}
for c in checks['checks']:
    pid = c['property_id']
    m['checks'].append({
        "property_id": pid,
        "quick_cmd": f"./check {pid} quick",
        "thorough_cmd": f"./check {pid} thorough",
        "evidence_file": f"/verif/evidence/{pid}.json",
        "replay_cmd_template": f"./check {pid} --replay {{path}}",
        "engine": c['engine'],
        "level_claimed": {"category": c.get('category', 'model_checking'), "text": c['text'], "design_ref": c['design_ref']},
        "level_note": c['level_note'],
        "technique": c['technique'],
    })
json.dump(m, open('MANIFEST.json', 'w'), indent=1)
print("claimed:", claimed, "not_applicable:", [n['property_id'] for n in na])
