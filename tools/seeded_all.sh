#!/bin/bash
# seeded_all.sh [tier] — apply every seeded change to /repo in turn, run the owning check(s), revert.
# Prints one line per change: DETECTED / MISSED. /repo must be clean; nothing else may use /repo meanwhile.
TIER="${1:-quick}"
cd /repo && [ -z "$(git status --porcelain)" ] || { echo "/repo not clean"; exit 3; }
for d in /verif/seeded/*/; do
  n=$(basename $d)
  grep -q '"status": "superseded"' $d/meta.json 2>/dev/null && { echo "$n: SUPERSEDED (skipped)"; continue; }
  # the owning property's check first, then every check named in detected_by
  ids=$(python3 -c "
import json,re
m=json.load(open('$d/meta.json'))
ids=[m['property']]+[x for x in re.findall(r'C\d\d', m['detected_by']) if x!=m['property']]
seen=[]
[seen.append(i) for i in ids if i not in seen]
print(' '.join(seen))")
  cd /repo; (git apply -3 $d/patch.diff 2>/dev/null || git apply $d/patch.diff) || { echo "$n: PATCH-DOES-NOT-APPLY"; git checkout -q -- .; continue; }
  git reset -q
  res=MISSED
  for id in $ids; do
    out=$(cd /verif && VERIF_NO_RACE=1 ./check $id $TIER 2>&1); rc=$?
    if [ $rc -eq 1 ] && echo "$out" | grep -q '^VIOLATION'; then res="DETECTED by $id"; break; fi
    [ $rc -ne 0 ] && [ $rc -ne 1 ] && res="CHECK-ERROR rc=$rc"
  done
  echo "$n: $res"
  cd /repo; git checkout -q -- .; git clean -fdq
done
