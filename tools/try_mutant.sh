#!/bin/bash
# try_mutant.sh <patch.diff> <tier> <ID>...   apply to /repo, run checks, revert
P="$1"; TIER="$2"; shift 2
cd /repo
[ -z "$(git status --porcelain)" ] || { echo "/repo not clean"; exit 3; }
git apply -3 "$P" 2>/dev/null || git apply "$P" || { echo "patch does not apply"; exit 4; }
git reset -q   # unstage what -3 may have staged
for id in "$@"; do
  out=$(cd /verif && ./check $id $TIER 2>&1); rc=$?
  n=$(echo "$out" | grep -c '^VIOLATION')
  echo "  $id $TIER: exit=$rc violations_lines=$n $(echo "$out" | grep -m1 'sig=' | cut -c1-260)"
done
git checkout -q -- . ; git clean -fdq
[ -z "$(git status --porcelain)" ] || echo "WARNING /repo dirty"
