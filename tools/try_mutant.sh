#!/bin/bash
# try_mutant.sh <patch.diff> <tier> <ID>...   run checks against a scratch worktree of /repo HEAD with
# (or of $VERIF_BASE, e.g. a branch with repairs not yet in /repo) with the patch applied (VERIF_REPO), leaving /repo untouched; evidence/replays go to a scratch VERIF_DIR copy.
P="$1"; TIER="$2"; shift 2
WT=$(mktemp -d /tmp/try-XXXX); rmdir $WT
git -C /repo worktree add -q --detach $WT ${VERIF_BASE:-HEAD} || exit 3
trap 'git -C /repo worktree remove --force $WT' EXIT
( cd $WT && (git apply -3 "$P" 2>/dev/null || git apply "$P") && git reset -q ) || { echo "patch does not apply"; exit 4; }
for id in "$@"; do
  out=$(cd /verif && VERIF_OUT=$WT/.verif-out VERIF_REPO=$WT VERIF_NO_RACE=${VERIF_NO_RACE:-} ./check $id $TIER 2>&1); rc=$?
  n=$(echo "$out" | grep -c '^VIOLATION')
  echo "  $id $TIER: exit=$rc violations_lines=$n $(echo "$out" | grep -m1 'sig=' | cut -c1-${VERIF_CUT:-260})"
done
