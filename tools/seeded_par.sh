#!/bin/bash
# seeded_par.sh [shards] — like seeded_all.sh but leaves /repo alone: every seeded change is applied to a scratch worktree
# (tools/try_mutant.sh, VERIF_REPO) and the shards run side by side. Under that load the quick tiers can hit their time
# budgets, so a MISSED here is only a candidate: re-run it alone (tools/try_mutant.sh <patch> quick <ID>) before believing it.
N="${1:-3}"
OUT=/tmp/seeded_par; rm -rf $OUT; mkdir -p $OUT
ls -d /verif/seeded/*/ > $OUT/all.txt
split -n l/$N -d $OUT/all.txt $OUT/shard.
for f in $OUT/shard.*; do
 ( while read d; do
     n=$(basename $d)
     grep -q '"status": "superseded"' $d/meta.json 2>/dev/null && { echo "$n: DETECTED (superseded, skipped)"; continue; }
     ids=$(python3 -c "
import json,re
m=json.load(open('$d/meta.json'))
ids=[m['property']]+[x for x in re.findall(r'C\d\d', m['detected_by']) if x!=m['property']]
seen=[]
[seen.append(i) for i in ids if i not in seen]
print(' '.join(seen))")
     res=MISSED
     for id in $ids; do
       race=1; echo "$(cat $d/meta.json)" | grep -qi "race" && race=
       out=$(VERIF_NO_RACE=$race /verif/tools/try_mutant.sh $d/patch.diff quick $id 2>&1)
       if echo "$out" | grep -q "exit=1"; then res="DETECTED by $id"; break; fi
       echo "$out" | grep -q "does not apply" && { res="PATCH-DOES-NOT-APPLY"; break; }
     done
     echo "$n: $res"
   done < $f > $f.out 2>&1 ) &
done
wait
cat $OUT/shard.*.out | sort > $OUT/result.txt
grep -vc "DETECTED" $OUT/result.txt
