#!/bin/bash
# eval_round.sh <tag> [cNN]    e.g. r5 — for every /tmp/cNN-<tag>-mutant-K: confirm it (scratch worktree), then try the owning
# check and its neighbours (quick tier, scratch worktree via try_mutant.sh) until one reports it. Sequential on purpose.
TAG="$1"
pk() { case $1 in c06|c07|c11) echo sourceaddrs;; c08|c09|c10|c12|c13|c14|c17|c18) echo sourcebundle;; *) echo .;; esac; }
rel() { case $1 in
 c01) echo "C01 C04";; c02) echo "C02 C15 C03";; c03) echo "C03 C09 C16";; c04) echo "C04 C01 C15";; c05) echo "C05 C04 C02";;
 c06) echo "C06 C11";; c07) echo "C07";; c08) echo "C08 C14 C12 C13";; c09) echo "C09 C02 C15";; c10) echo "C10 C03 C08 C13";;
 c11) echo "C11 C06";; c12) echo "C12";; c13) echo "C13 C17 C08";; c14) echo "C14 C08 C12 C13 C10";; c15) echo "C15 C02";;
 c16) echo "C16 C05";; c17) echo "C17 C13";; c18) echo "C18 C19";; c19) echo "C19 C05 C03 C16";; c20) echo "C20 C12";; esac; }
for d in /tmp/${2:-c*}-$TAG-mutant-*; do
  [ -d "$d" ] || continue
  n=$(basename $d); id=${n%%-*}
  p=$(pk $id)
  # the demo's own header may name another package directory
  if head -20 $d/demo_test.go | grep -qi "sourcebundle"; then p=sourcebundle; elif head -20 $d/demo_test.go | grep -qi "sourceaddrs"; then p=sourceaddrs; elif head -20 $d/demo_test.go | grep -qi "internal/ignorefiles"; then p=internal/ignorefiles; elif head -20 $d/demo_test.go | grep -qi "internal/unpackinfo"; then p=internal/unpackinfo; fi
  c=$(timeout 1200 /verif/tools/confirm_mutant.sh $d $p 2>&1 | tail -1)
  if [ "$c" != CONFIRMED ]; then
    for q in . sourceaddrs sourcebundle internal/ignorefiles internal/unpackinfo; do [ "$q" = "$p" ] && continue; c=$(timeout 1200 /verif/tools/confirm_mutant.sh $d $q 2>&1 | tail -1); [ "$c" = CONFIRMED ] && break; done
  fi
  res="MISSED"
  if [ "$c" = CONFIRMED ]; then
    for chk in $(rel $id); do
      out=$(VERIF_NO_RACE=${VERIF_NO_RACE-1} /verif/tools/try_mutant.sh $d/patch.diff quick $chk 2>&1)
      if echo "$out" | grep -q "exit=1"; then res="DETECTED by $chk :: $(echo "$out" | grep -o 'sig=[^ ]*' | head -1)"; break; fi
      echo "$out" | grep -q "does not apply" && { res="PATCH-DOES-NOT-APPLY"; break; }
    done
  fi
  echo "$n: $c; $res"
done
