#!/bin/bash
# rebase_seeded.sh — after a fix: commit in /repo, re-base every seeded patch that no longer applies.
# 3-way merge in a scratch worktree; a clean merge that builds replaces patch.diff, anything else is reported.
export GOPROXY=off GOSUMDB=off GOTOOLCHAIN=local
for d in /verif/seeded/*/; do
  git -C /repo apply --check $d/patch.diff 2>/dev/null && continue
  n=$(basename $d)
  WT=$(mktemp -d /tmp/rebase-XXXX); rmdir $WT
  git -C /repo worktree add -q --detach $WT HEAD
  ( cd $WT
    if git apply -3 $d/patch.diff >/dev/null 2>&1 && ! git status --short | grep -q '^UU\|^AA\|^U'; then
      git reset -q
      if go build ./... 2>/dev/null; then git diff > $d/patch.diff; echo "$n: rebased"; else echo "$n: MERGED-BUT-DOES-NOT-BUILD"; fi
    else echo "$n: CONFLICT"; fi )
  git -C /repo worktree remove --force $WT
done
