#!/usr/bin/env python3
# regenerates the seeded-changes table of DESIGN.md §10.5 from seeded/*/meta.json
import json,glob,os,re
rows=[]
for d in sorted(glob.glob('/verif/seeded/*/')):
    m=json.load(open(d+'meta.json'))
    rows.append("| %s | %s | %s |"%(os.path.basename(d.rstrip('/')), m['needs_to_manifest'].replace('|','/'), m['detected_by'].replace('|','/')))
table="| seeded change | needs | caught by |\n|---|---|---|\n"+"\n".join(rows)
p='/verif/DESIGN.md'
s=open(p).read()
a=s.index("| seeded change | needs | caught by |")
b=s.index("(one C02 change")
s=s[:a]+table+"\n\n"+s[b:]
open(p,'w').write(s)
print(len(rows),"rows")
