#!/bin/bash
cd "$(dirname "$0")/.."
./run_all.sh thorough C17 C10 C12 C07 C09 C18 C19 C16 C13 C14 C15 C02 C05 C20 C08
