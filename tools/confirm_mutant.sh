#!/bin/bash
# confirm_mutant.sh <mutant-dir> [pkgdir-for-demo (default .)]
# In a scratch worktree of /repo HEAD: patch applies, build ok, existing tests pass with patch,
# demo fails with patch, demo passes without.
set -u
M="$1"; PKG="${2:-.}"
export GOPROXY=off GOSUMDB=off GOTOOLCHAIN=local
WT=$(mktemp -d /tmp/confirm-XXXX); rmdir $WT
git -C /repo worktree add -q --detach $WT HEAD || exit 3
cleanup(){ git -C /repo worktree remove --force $WT; }
trap cleanup EXIT
cd $WT
if ! git apply --check "$M/patch.diff" 2>/dev/null; then
  if ! git apply -3 "$M/patch.diff" 2>/tmp/apply.err; then echo "PATCH DOES NOT APPLY"; cat /tmp/apply.err | head; exit 4; fi
else git apply "$M/patch.diff"; fi
git reset -q
go build ./... || { echo "BUILD FAILS"; exit 5; }
if go test -count=1 ./... >/tmp/confirm-tests.log 2>&1; then echo "existing tests: PASS with patch"; else echo "existing tests: FAIL with patch"; tail -20 /tmp/confirm-tests.log; exit 6; fi
cp "$M/demo_test.go" "$PKG/verif_demo_test.go"
if go test -count=1 -run 'VerifDemo|TestDemo' "./$PKG" >/tmp/confirm-demo1.log 2>&1; then echo "demo: PASSES with patch (bad)"; R1=pass; else echo "demo: fails with patch (good)"; R1=fail; fi
git diff > /tmp/confirm-$$.diff; git apply -R /tmp/confirm-$$.diff; rm -f /tmp/confirm-$$.diff
if go test -count=1 -run 'VerifDemo|TestDemo' "./$PKG" >/tmp/confirm-demo2.log 2>&1; then echo "demo: passes without patch (good)"; R2=pass; else echo "demo: FAILS without patch (bad)"; tail -15 /tmp/confirm-demo2.log; R2=fail; fi
[ $R1 = fail ] && [ $R2 = pass ] && echo CONFIRMED || echo NOT-CONFIRMED
