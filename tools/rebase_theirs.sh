#!/bin/bash
# rebase_theirs.sh <seeded-name-or-dir> [pkgdir] — re-base a seeded patch that conflicts with a later fix:
# 3-way apply, keep the seeded side of every conflicting hunk, build, re-confirm with the demo; replace patch.diff on success.
export GOPROXY=off GOSUMDB=off GOTOOLCHAIN=local
D="$1"; [ -d "$D" ] || D=/verif/seeded/$1
PK="${2:-.}"
WT=$(mktemp -d /tmp/rebase-XXXX); rmdir $WT
git -C /repo worktree add -q --detach $WT HEAD
cd $WT
git apply -3 $D/patch.diff >/dev/null 2>&1
for f in $(git diff --name-only --diff-filter=U; git status --short | awk '/^UU|^AA/{print $2}'); do
  python3 - "$f" <<'PY'
import sys,re
p=sys.argv[1]; s=open(p).read()
out=[];mode=None
for line in s.split('\n'):
    if line.startswith('<<<<<<< '): mode='ours'; continue
    if line.startswith('=======') and mode=='ours': mode='theirs'; continue
    if line.startswith('>>>>>>> ') and mode=='theirs': mode=None; continue
    if mode=='ours': continue
    out.append(line)
open(p,'w').write('\n'.join(out))
PY
done
git reset -q
# a kept seeded hunk may have dropped the only use of an import a later fix added
for try in 1 2 3; do
  go build ./... 2>/tmp/rebase-build.log && break
  l=$(grep -m1 'imported and not used' /tmp/rebase-build.log) || break
  f=$(echo "$l" | cut -d: -f1); imp=$(echo "$l" | sed -E 's/.*"([^"]+)" imported and not used.*/\1/')
  sed -i "\|^[[:space:]]*\"$imp\"$|d" "$f"
done
if go build ./... 2>/tmp/rebase-build.log; then
  git diff > /tmp/rebase-candidate.diff
  mkdir -p /tmp/rebase-cand; cp /tmp/rebase-candidate.diff /tmp/rebase-cand/patch.diff; cp $D/demo_test.go /tmp/rebase-cand/demo_test.go
  cd /; git -C /repo worktree remove --force $WT
  r=$(/verif/tools/confirm_mutant.sh /tmp/rebase-cand $PK 2>&1 | tail -1)
  if [ "$r" = CONFIRMED ]; then cp /tmp/rebase-candidate.diff $D/patch.diff; echo "$(basename $D): rebased (seeded side kept), CONFIRMED"; else echo "$(basename $D): rebased candidate NOT confirmed ($r)"; fi
  rm -rf /tmp/rebase-cand /tmp/rebase-candidate.diff
else
  echo "$(basename $D): DOES NOT BUILD after keeping the seeded side"; head -5 /tmp/rebase-build.log
  cd /; git -C /repo worktree remove --force $WT
fi
