#!/bin/bash
# save_mutant.sh <srcdir> <name> <property> <needs> <detected_by>
S="$1"; N="$2"; P="$3"; NEEDS="$4"; DET="$5"
D=/verif/seeded/$N; mkdir -p $D
WT=$(mktemp -d /tmp/save-XXXX); rmdir $WT
git -C /repo worktree add -q --detach $WT HEAD
( cd $WT && (git apply -3 "$S/patch.diff" 2>/dev/null || git apply "$S/patch.diff") && git reset -q && git diff > $D/patch.diff )
git -C /repo worktree remove --force $WT
cp "$S/demo_test.go" $D/demo_test.go
[ -f "$S/notes.md" ] && cp "$S/notes.md" $D/notes.md
python3 - "$D" "$P" "$NEEDS" "$DET" <<'PY'
import json,sys,subprocess
d,p,needs,det=sys.argv[1:5]
head=subprocess.check_output(['git','-C','/repo','rev-parse','--short','HEAD']).decode().strip()
json.dump({"property":p,"breaks":p,"needs_to_manifest":needs,"repo_head_when_confirmed":head,
 "confirmed":"tools/confirm_mutant.sh: patch applies, go build ok, existing go test ./... passes with patch, demo test fails with patch and passes without",
 "detected_by":det},open(d+'/meta.json','w'),indent=1)
PY
echo saved $D
