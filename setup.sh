#!/bin/bash
# Offline setup: warm the Go build cache for the checker (plain and -race builds).
set -e
cd "$(dirname "$0")"
export GOFLAGS=-mod=mod GOPROXY=off GOSUMDB=off GOTOOLCHAIN=local
mkdir -p .build evidence replays
cp /repo/go.sum mc/go.sum
( cd mc && go build -o ../.build/vcheck ./cmd/vcheck )
echo setup ok
