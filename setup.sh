#!/bin/bash
# Offline setup: warm the Go build cache for the checker (plain and -race builds).
set -e
cd "$(dirname "$0")"
export GOFLAGS=-mod=mod GOPROXY=off GOSUMDB=off GOTOOLCHAIN=local
mkdir -p .build evidence replays
cp /repo/go.sum mc/go.sum
( cd mc && go build -o ../.build/vcheck ./cmd/vcheck )
# warm the caches for the overlay (scheduler) and -race builds used by C13/C16
( cd mc && go build -o ../.build/instr ./cmd/instr ) && .build/instr /repo "$(pwd)/.build/ov" "$(pwd)/mc/shim/vsync/vsync.go" \
  && ( cd mc && go build -tags verifsched -overlay ../.build/ov/overlay.json -o ../.build/vcheck-sched ./cmd/vcheck \
       && go build -race -tags verifsched -overlay ../.build/ov/overlay.json -o ../.build/vcheck-race ./cmd/vcheck ) || echo "warning: scheduler/race warm-up build failed"
# ... and for the map-order build (E4) used by C07/C13/C15/C18
( cd mc && go build -o ../.build/instrmap ./cmd/instrmap ) && ( export GOFLAGS=; .build/instrmap /repo "$(pwd)/.build/ovm" "$(pwd)/mc/shim/vmap/vmap.go" ) \
  && ( cd mc && go build -tags verifmap -overlay ../.build/ovm/overlay.json -o ../.build/vcheck-map ./cmd/vcheck ) || echo "warning: map-order warm-up build failed"
echo setup ok
