#!/bin/bash
# run_all.sh <quick|thorough> [ids...]  — run every check, print one summary line each
TIER="${1:-quick}"; shift
cd "$(dirname "$0")"; IDS="$@"; [ -z "$IDS" ] && IDS=$(python3 -c "import json;print(' '.join(c['property_id'] for c in json.load(open('MANIFEST.json'))['checks']))")
cd "$(dirname "$0")"
for id in $IDS; do
  s=$(date +%s)
  out=$(./check $id $TIER 2>&1); rc=$?
  e=$(( $(date +%s) - s ))
  if [ $rc -ne 0 ]; then mkdir -p .build/logs; echo "$out" | tail -60 > .build/logs/$id-$TIER-rc$rc.txt; echo "$out" | grep -v '^VIOLATION\|^KNOWN' | tail -5 | sed "s/^/    [$id] /" | cut -c1-300; fi
  echo "$id rc=$rc ${e}s viol=$(echo "$out" | grep -c '^VIOLATION') known=$(echo "$out" | grep -c '^KNOWN-FINDING') :: $(echo "$out" | grep "^$id $TIER:" | cut -c1-200)"
done
