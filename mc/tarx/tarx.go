// Package tarx builds tar.gz byte streams from small entry lists and decodes them again.
package tarx

import (
	"archive/tar"
	"bytes"
	"compress/gzip"
	"fmt"
	"io"
	"strings"
	"time"
)

// Entry is one archive member of the enumeration alphabets.
type Entry struct {
	Name   string `json:"n"`
	Kind   string `json:"k"`           // reg dir link hard fifo char block xglobal
	Target string `json:"l,omitempty"` // link target
	Body   string `json:"b,omitempty"`
	Mode   int64  `json:"m,omitempty"` // 0 = default (0644 / 0755)
	MTime  int64  `json:"t,omitempty"` // unix nanoseconds; 0 = BaseTime
	Raw    int64  `json:"r,omitempty"` // raw header mode incl. file-type bits (inconsistent headers); overrides Mode
}

func (e Entry) String() string {
	s := e.Kind + ":" + e.Name
	if e.Kind == "link" || e.Kind == "hard" {
		s += "->" + e.Target
	}
	if e.Mode != 0 {
		s += fmt.Sprintf("%%%o", e.Mode)
	}
	if e.Raw != 0 {
		s += fmt.Sprintf("%%raw%o", e.Raw)
	}
	if e.Body != "" && e.Body != "X" {
		s += "=" + e.Body
	}
	if e.MTime != 0 {
		s += fmt.Sprintf("@%d", e.MTime)
	}
	return s
}

var BaseTime = time.Date(2001, 2, 3, 4, 5, 6, 0, time.UTC)

func (e Entry) Header(format tar.Format) *tar.Header {
	h := &tar.Header{Name: e.Name, Format: format, ModTime: BaseTime}
	if e.MTime != 0 {
		h.ModTime = time.Unix(0, e.MTime).UTC()
	}
	switch e.Kind {
	case "reg":
		h.Typeflag = tar.TypeReg
		h.Size = int64(len(e.Body))
		h.Mode = 0644
	case "dir":
		h.Typeflag = tar.TypeDir
		h.Mode = 0755
	case "link":
		h.Typeflag = tar.TypeSymlink
		h.Linkname = e.Target
		h.Mode = 0777
	case "hard":
		h.Typeflag = tar.TypeLink
		h.Linkname = e.Target
		h.Mode = 0644
	case "fifo":
		h.Typeflag = tar.TypeFifo
		h.Mode = 0644
	case "char":
		h.Typeflag = tar.TypeChar
		h.Mode = 0644
	case "block":
		h.Typeflag = tar.TypeBlock
		h.Mode = 0644
	case "xglobal":
		h.Typeflag = tar.TypeXGlobalHeader
		h.Name = e.Name
		h.PAXRecords = map[string]string{"comment": "verif"}
		h.Format = tar.FormatPAX
		h.ModTime = time.Time{}
	default:
		panic("tarx: kind " + e.Kind)
	}
	if e.Mode != 0 {
		h.Mode = e.Mode & 07777
	}
	if e.Mode == -1 {
		h.Mode = 0
	}
	if e.Raw != 0 {
		h.Mode = e.Raw
	}
	return h
}

// Tar builds the uncompressed tar stream.
func Tar(entries []Entry, format tar.Format) ([]byte, error) {
	var buf bytes.Buffer
	tw := tar.NewWriter(&buf)
	for _, e := range entries {
		h := e.Header(format)
		if err := tw.WriteHeader(h); err != nil {
			return nil, fmt.Errorf("WriteHeader %s: %w", e, err)
		}
		if e.Kind == "reg" {
			if _, err := io.WriteString(tw, e.Body); err != nil {
				return nil, err
			}
		}
	}
	if err := tw.Close(); err != nil {
		return nil, err
	}
	return buf.Bytes(), nil
}

// Gzip compresses raw.
func Gzip(raw []byte) []byte {
	var buf bytes.Buffer
	zw, _ := gzip.NewWriterLevel(&buf, gzip.BestSpeed)
	zw.Write(raw)
	zw.Close()
	return buf.Bytes()
}

// GzipTwoMembers compresses raw (a tar stream) as TWO concatenated gzip members, the first
// ending exactly where the first entry of the archive ends. RFC 1952 allows any number of
// members; a reader that stops after the first one sees a clean end of archive there.
func GzipTwoMembers(raw []byte) []byte {
	cr := &countReader{r: bytes.NewReader(raw)}
	tr := tar.NewReader(cr)
	off := len(raw)
	if _, err := tr.Next(); err == nil {
		io.Copy(io.Discard, tr)
		off = (cr.n + 511) / 512 * 512
		if off > len(raw) {
			off = len(raw)
		}
	}
	return append(Gzip(raw[:off]), Gzip(raw[off:])...)
}

type countReader struct {
	r io.Reader
	n int
}

func (c *countReader) Read(p []byte) (int, error) {
	n, err := c.r.Read(p)
	c.n += n
	return n, err
}

// Build = Gzip(Tar(...)).
func Build(entries []Entry, format tar.Format) ([]byte, error) {
	raw, err := Tar(entries, format)
	if err != nil {
		return nil, err
	}
	return Gzip(raw), nil
}

// Decoded is one member read back from a slug.
type Decoded struct {
	Name     string
	Type     byte
	Linkname string
	Mode     int64
	Size     int64
	MSec     int64
	MNsec    int64
	Body     string
}

// Decode reads a tar.gz completely.
func Decode(b []byte) ([]Decoded, error) {
	zr, err := gzip.NewReader(bytes.NewReader(b))
	if err != nil {
		return nil, err
	}
	tr := tar.NewReader(zr)
	var out []Decoded
	for {
		h, err := tr.Next()
		if err == io.EOF {
			return out, nil
		}
		if err != nil {
			return out, err
		}
		body, err := io.ReadAll(tr)
		if err != nil {
			return out, err
		}
		out = append(out, Decoded{Name: h.Name, Type: h.Typeflag, Linkname: h.Linkname, Mode: h.Mode, Size: h.Size,
			MSec: h.ModTime.Unix(), MNsec: int64(h.ModTime.Nanosecond()), Body: string(body)})
	}
}

func Names(es []Entry) string {
	var s []string
	for _, e := range es {
		s = append(s, e.String())
	}
	return strings.Join(s, " ; ")
}

// FaultReader yields data[:cut] and then EOF (mode "eof") or an error (mode
// "err", or one that wraps io.EOF: mode "wrapeof"); with chunk>0 every Read returns at most chunk bytes.
type FaultReader struct {
	Data  []byte
	Cut   int // -1 = no cut
	Mode  string
	Chunk int
	pos   int
}

var ErrInjected = fmt.Errorf("injected read fault")
var ErrWrappedEOF = fmt.Errorf("connection lost: %w", io.EOF)

func (f *FaultReader) Read(p []byte) (int, error) {
	end := len(f.Data)
	if f.Cut >= 0 && f.Cut < end {
		end = f.Cut
	}
	if f.pos >= end {
		if f.Cut >= 0 && f.Cut < len(f.Data) && f.Mode == "err" {
			return 0, ErrInjected
		}
		if f.Cut >= 0 && f.Cut < len(f.Data) && f.Mode == "wrapeof" {
			return 0, ErrWrappedEOF // a failure, not an end: errors.Is(err, io.EOF) holds, err == io.EOF does not
		}
		return 0, io.EOF
	}
	n := len(p)
	if f.Chunk > 0 && n > f.Chunk {
		n = f.Chunk
	}
	if n > end-f.pos {
		n = end - f.pos
	}
	copy(p, f.Data[f.pos:f.pos+n])
	f.pos += n
	return n, nil
}
