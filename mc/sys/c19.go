package sys

import (
	"archive/tar"
	"bytes"
	"encoding/json"
	"fmt"
	"os"
	"path/filepath"
	"strings"
	"time"

	slug "github.com/hashicorp/go-slug"

	"verif/mc/core"
	"verif/mc/tarx"
)

// C19 — no entry point panics, crashes or hangs. Every case runs in a watched
// worker subprocess: a recovered panic, a fatal exit (stack overflow, OOM) and
// a watchdog expiry are the three violation classes.

// ---- raw-bytes Unpack handler ----

type RawUnpackArg struct {
	Tar  []byte `json:"tar"` // uncompressed tar bytes (already mutated)
	Cut  int    `json:"cut"` // truncate the gzip stream (-1 none)
	Desc string `json:"desc"`
}

type RawUnpackOut struct {
	Err   string `json:"err,omitempty"`
	Panic string `json:"panic,omitempty"`
}

func rawUnpackHandler(raw json.RawMessage) (any, error) {
	var arg RawUnpackArg
	if err := json.Unmarshal(raw, &arg); err != nil {
		return nil, err
	}
	base := core.NewArena()
	defer core.RemoveArena(base)
	dst := filepath.Join(base, "p", "dst")
	os.MkdirAll(dst, 0755)
	data := tarx.Gzip(arg.Tar)
	if arg.Cut >= 0 && arg.Cut < len(data) {
		data = data[:arg.Cut]
	}
	var out RawUnpackOut
	func() {
		defer func() {
			if r := recover(); r != nil {
				out.Panic = fmt.Sprint(r)
			}
		}()
		if err := slug.Unpack(bytes.NewReader(data), dst); err != nil {
			out.Err = err.Error()
		}
	}()
	return out, nil
}

func init() { core.Register("rawunpack", rawUnpackHandler) }

func fixChecksum(block []byte) {
	copy(block[148:156], []byte("        "))
	var sum int
	for _, b := range block[:512] {
		sum += int(b)
	}
	copy(block[148:156], []byte(fmt.Sprintf("%06o\x00 ", sum)))
}

// headerMutations returns mutated copies of raw (a tar stream whose first
// header block starts at off), one per single-field mutation.
func headerMutations(raw []byte, off int) (out [][]byte, descs []string) {
	mut := func(desc string, f func(b []byte)) {
		c := append([]byte{}, raw...)
		f(c[off : off+512])
		fixChecksum(c[off : off+512])
		out = append(out, c)
		descs = append(descs, desc)
	}
	for tf := 0; tf < 256; tf++ {
		tf := tf
		mut(fmt.Sprintf("typeflag=%#02x", tf), func(b []byte) { b[156] = byte(tf) })
	}
	for _, sz := range []string{"00000000000\x00", "77777777777\x00", "\x80\x00\x00\x7f\xff\xff\xff\xff\xff\xff\xff\xff", "garbage!!!!\x00", "00000001000\x00", "-0000000001\x00"} {
		sz := sz
		mut(fmt.Sprintf("size=%q", sz), func(b []byte) { copy(b[124:136], []byte(sz)) })
	}
	names := []string{"", "/", "//", ".", "..", "./", "a/", strings.Repeat("n", 99), strings.Repeat("d/", 49), "\x00a", "a\x00b", "é", "\xff\xfe", " ", "a/../..", "../x"}
	for _, n := range names {
		n := n
		mut(fmt.Sprintf("name=%q", n), func(b []byte) {
			for i := 0; i < 100; i++ {
				b[i] = 0
			}
			copy(b[0:100], []byte(n))
		})
		mut(fmt.Sprintf("linkname=%q", n), func(b []byte) {
			for i := 157; i < 257; i++ {
				b[i] = 0
			}
			copy(b[157:257], []byte(n))
		})
	}
	mut("prefix=long", func(b []byte) { copy(b[345:500], []byte(strings.Repeat("p/", 77))) })
	mut("mode=garbage", func(b []byte) { copy(b[100:108], []byte("zzzzzzz\x00")) })
	mut("mtime=huge", func(b []byte) { copy(b[136:148], []byte("77777777777\x00")) })
	mut("mtime=negative-base256", func(b []byte) { copy(b[136:148], []byte("\xff\xff\xff\xff\xff\xff\xff\xff\xff\xff\xff\x00")) })
	// bad checksum (no repair)
	c := append([]byte{}, raw...)
	c[off+148] ^= 0x55
	out = append(out, c)
	descs = append(descs, "checksum=bad")
	return
}

// ---- Pack trees ----

func c19TreeOps() []TNode {
	n255 := strings.Repeat("x", 255)
	return []TNode{
		{Path: "src/l1", Kind: "link", Target: "l2"},
		{Path: "src/l2", Kind: "link", Target: "l1"},
		{Path: "src/self", Kind: "link", Target: "self"},
		{Path: "src/d/up", Kind: "link", Target: ".."},
		{Path: "src/d/upup", Kind: "link", Target: "../.."},
		{Path: "src/x1", Kind: "link", Target: "../out/c1"},
		{Path: "out/c1", Kind: "link", Target: "c2"},
		{Path: "out/c2", Kind: "link", Target: "c1"},
		{Path: "out/cself", Kind: "link", Target: "cself"},
		{Path: "src/x2", Kind: "link", Target: "../out/cself"},
		{Path: "src/xd", Kind: "link", Target: "../out/dir"},
		{Path: "out/dir/g", Kind: "file", Body: "g"},
		{Path: "out/dir/self", Kind: "link", Target: "."},
		{Path: "out/dir/back", Kind: "link", Target: "../dir"},
		{Path: "out/dir/toroot", Kind: "link", Target: "../../src"},
		{Path: "out/dir/other", Kind: "link", Target: "../dir2"},
		{Path: "out/dir2/back", Kind: "link", Target: "../dir"},
		{Path: "src/ff", Kind: "fifo"},
		{Path: "src/lf", Kind: "link", Target: "ff"},
		{Path: "out/ff", Kind: "fifo"},
		{Path: "src/xf", Kind: "link", Target: "../out/ff"},
		{Path: "out/dir/ff", Kind: "fifo"},
		{Path: "src/.terraformignore", Kind: "fifo"},                             // the rule file itself is a special file ...
		{Path: "src/.terraformignore", Kind: "link", Target: "../out/ff"},        // ... or a link to one
		{Path: "src/.terraformignore", Kind: "dir"},                              // ... or a directory
		{Path: "src/.terraformignore", Kind: "link", Target: ".terraformignore"}, // ... or a link to itself
		{Path: "out/dir/.terraformignore", Kind: "fifo"},
		{Path: "src/nl\nname", Kind: "file", Body: "n"},
		{Path: "src/-rf", Kind: "file", Body: "n"},
		{Path: "src/" + n255, Kind: "file", Body: "n"},
		{Path: "src/dangabs", Kind: "link", Target: "/nonexistent/x"},
		{Path: "src/xdang", Kind: "link", Target: "../out/nope"},
		{Path: "src/empty", Kind: "dir"},
	}
}

var c19RuleLines = []string{"", "   ", "\t", "!", "#", "/", "!/", "**", "\\", "[", "a\\", "a", "! ", "!#", "//", "***", "a/**/", "[a-", "?", " !"}

func RunC19(tier string) int {
	rep := core.NewReport("C19", tier)
	thorough := tier == "thorough"
	deadline := time.Now().Add(110 * time.Second)
	if thorough {
		deadline = time.Now().Add(28 * time.Minute)
	}
	pool := core.NewPool(0)
	pool.Timeout = 20 * time.Second
	pool.MemKB = 4 << 20 // 4 GiB address space per worker
	var parts []map[string]any

	record := func(site, desc string, r core.Result, panicMsg string, sys string, arg any) {
		rep.Evaluations++
		switch {
		case r.Hung:
			rep.Outcome("HANG")
			rep.Violation(site+"/hang", desc+" — no return within 20s", sys, arg)
		case r.Crashed:
			rep.Outcome("CRASH")
			rep.Violation(site+"/fatal-crash", desc+" — worker died: "+firstLines(r.Stderr, 2), sys, arg)
		case r.Panic != "" || panicMsg != "":
			rep.Outcome("PANIC")
			m := panicMsg
			if m == "" {
				m = firstLines(r.Panic, 1)
			}
			rep.Violation(site+"/panic", desc+" — panic: "+m, sys, arg)
		}
	}

	// ---- part 1: Pack on trees with cycles/fifos/odd names × rule files ----
	{
		ops := c19TreeOps()
		// the base already holds the far half of a 2-cycle between two out-of-tree directories
		// (dir2 -> dir), so that two more nodes (src/xd and out/dir/other) close it
		base := []TNode{{Path: "src/a", Kind: "file", Body: "a"}, {Path: "src/d/f", Kind: "file", Body: "f"}, {Path: "out/dir2/back", Kind: "link", Target: "../dir"}, {Path: "out/dir2/h", Kind: "file", Body: "h"}}
		k := 2
		if thorough {
			k = 3
		}
		var trees [][]TNode
		exploreCombos(len(ops), k, time.Time{}, func(hists [][]int, handle func(int, string, bool)) {
			for i, h := range hists {
				t := append([]TNode{}, base...)
				for _, o := range h {
					t = append(t, ops[o])
				}
				trees = append(trees, t)
				handle(i, "", false)
			}
		})
		type job struct {
			nodes  []TNode
			ig, de bool
		}
		var jobs []job
		for _, t := range trees {
			for _, ig := range []bool{false, true} {
				for _, de := range []bool{false, true} {
					jobs = append(jobs, job{t, ig, de})
				}
			}
		}
		// rule files of <=2 (quick) / <=3 (thorough) lines on the base tree
		var ruleFiles []string
		L := c19RuleLines
		for _, a := range L {
			ruleFiles = append(ruleFiles, a+"\n", a) // with and without final newline
			for _, b := range L {
				ruleFiles = append(ruleFiles, a+"\n"+b+"\n")
				if thorough {
					for _, c := range L {
						ruleFiles = append(ruleFiles, a+"\n"+b+"\n"+c)
					}
				}
			}
		}
		for _, rf := range ruleFiles {
			t := append(append([]TNode{}, base...), TNode{Path: "src/.terraformignore", Kind: "file", Body: rf})
			jobs = append(jobs, job{t, true, false})
		}
		args := make([]PackArg, len(jobs))
		outcomes := map[string]bool{}
		pool.Map("pack", len(jobs), func(i int) any {
			args[i] = PackArg{Nodes: jobs[i].nodes, Ignore: jobs[i].ig, Deref: jobs[i].de, NoTrees: true}
			return args[i]
		}, func(i int, r core.Result) {
			desc := fmt.Sprintf("Pack(ignore=%v deref=%v) tree [%s]", jobs[i].ig, jobs[i].de, TreeString(jobs[i].nodes))
			var out PackOut
			if !r.Hung && !r.Crashed && r.Panic == "" && r.Err == "" {
				json.Unmarshal(r.Out, &out)
				if out.SetupErr != "" {
					rep.NoVerdict++
					return
				}
				rep.Outcome("returned")
				outcomes[fmt.Sprint(out.Err != "", len(out.Files))] = true
				rep.Nontrivial("pack" + out.Err + fmt.Sprint(out.Files))
				if i%499 == 0 {
					rep.Sample(desc + fmt.Sprintf(" => err=%q files=%d", out.Err, len(out.Files)))
				}
			}
			record("slug.Pack", desc, r, out.Panic, "pack", args[i])
		})
		// the same call as an unprivileged user on trees it cannot fully read: errors, not panics
		{
			upool := core.NewPool(65534)
			perm := []TNode{
				{Path: "src/ro", Kind: "dir", Mode: 0444}, {Path: "src/ro/f", Kind: "file", Body: "f"}, // listable, not searchable: the walk gets an error with a nil FileInfo for ro/f
				{Path: "src/none", Kind: "dir", Mode: -1}, {Path: "src/none/f", Kind: "file", Body: "f"},
				{Path: "src/unread", Kind: "file", Body: "u", Mode: -1},
				{Path: "src/wo", Kind: "dir", Mode: 0333}, {Path: "src/wo/f", Kind: "file", Body: "f"},
				{Path: "out/ro", Kind: "dir", Mode: 0444}, {Path: "out/ro/f", Kind: "file", Body: "f"}, {Path: "src/xro", Kind: "link", Target: "../out/ro"},
			}
			rules := []string{"", "ro/\n", "ro/\n!ro/f\n", "none/\n", "*\n"}
			// all of them together, and each obstacle alone (the first error ends the walk and hides the others)
			permSets := [][]TNode{perm, perm[0:2], perm[2:4], perm[4:5], perm[5:7], perm[7:10]}
			var ujobs []PackArg
			for _, ig := range []bool{false, true} {
				for _, de := range []bool{false, true} {
					for _, rf := range rules {
						for _, ps := range permSets {
							t := append(append([]TNode{}, base...), ps...)
							if rf != "" {
								if !ig {
									continue
								}
								t = append(t, TNode{Path: "src/.terraformignore", Kind: "file", Body: rf})
							}
							ujobs = append(ujobs, PackArg{Nodes: t, Ignore: ig, Deref: de, NoTrees: true, UID: 65534})
						}
					}
				}
			}
			upool.Map("pack", len(ujobs), func(i int) any { return ujobs[i] }, func(i int, r core.Result) {
				desc := fmt.Sprintf("uid=65534 Pack(ignore=%v deref=%v) tree [%s]", ujobs[i].Ignore, ujobs[i].Deref, TreeString(ujobs[i].Nodes))
				var out PackOut
				if !r.Hung && !r.Crashed && r.Panic == "" && r.Err == "" {
					json.Unmarshal(r.Out, &out)
					if out.SetupErr != "" {
						rep.NoVerdict++
						return
					}
					rep.Outcome("returned")
					rep.Nontrivial("upack" + out.Err + fmt.Sprint(out.Files))
				}
				record("slug.Pack", desc, r, out.Panic, "pack", ujobs[i])
			})
			rep.States += len(ujobs)
			parts = append(parts, map[string]any{"part": "pack-as-uid-65534-on-unreadable-trees", "cases": len(ujobs)})
		}
		rep.States += len(jobs)
		parts = append(parts, map[string]any{"part": "pack-trees+rule-files", "cases": len(jobs), "trees": len(trees), "rule_files": len(ruleFiles)})
		fmt.Printf("  part pack: cases=%d (trees=%d × 4 option sets, rule files=%d)\n", len(jobs), len(trees), len(ruleFiles))
	}

	// ---- part 2: Unpack on structured header mutations and truncations ----
	if time.Now().Before(deadline) {
		alpha := []tarx.Entry{{Name: "a", Kind: "reg", Body: "hello"}, {Name: "d/", Kind: "dir"}, {Name: "l", Kind: "link", Target: "a"}, {Name: "d/x", Kind: "reg", Body: "x"}}
		var archives [][]tarx.Entry
		for _, e := range alpha {
			archives = append(archives, []tarx.Entry{e})
		}
		for _, e1 := range alpha {
			for _, e2 := range alpha {
				archives = append(archives, []tarx.Entry{e1, e2})
			}
		}
		var args []RawUnpackArg
		for _, es := range archives {
			raw, err := tarx.Tar(es, tar.FormatUSTAR)
			if err != nil {
				core.Fatalf("tar: %v", err)
			}
			// header offsets: entry i starts after previous header+padded body
			off := 0
			for i, e := range es {
				muts, descs := headerMutations(raw, off)
				for j := range muts {
					args = append(args, RawUnpackArg{Tar: muts[j], Cut: -1, Desc: fmt.Sprintf("[%s] header#%d %s", tarx.Names(es), i, descs[j])})
				}
				off += 512 + (len(e.Body)+511)/512*512
			}
			gz := tarx.Gzip(raw)
			for c := 0; c < len(gz); c++ {
				args = append(args, RawUnpackArg{Tar: raw, Cut: c, Desc: fmt.Sprintf("[%s] gzip stream truncated at %d/%d", tarx.Names(es), c, len(gz))})
			}
			if thorough || len(es) == 1 {
				// truncations of the raw tar (well-formed gzip around a short tar)
				for c := 0; c < len(raw); c += 64 {
					args = append(args, RawUnpackArg{Tar: raw[:c], Cut: -1, Desc: fmt.Sprintf("[%s] tar truncated at %d", tarx.Names(es), c)})
				}
			}
		}
		// PAX records with odd values
		for _, rec := range []map[string]string{{"path": ""}, {"path": "/"}, {"path": strings.Repeat("p/", 3000)}, {"linkpath": ""}, {"size": "-1"}, {"mtime": "9999999999999999"}, {"path": "a\x00b"}} {
			var buf bytes.Buffer
			tw := tar.NewWriter(&buf)
			h := &tar.Header{Name: "a", Typeflag: tar.TypeReg, Size: 1, Mode: 0644, Format: tar.FormatPAX, PAXRecords: rec}
			if err := tw.WriteHeader(h); err == nil {
				tw.Write([]byte("x"))
				tw.Close()
				args = append(args, RawUnpackArg{Tar: buf.Bytes(), Cut: -1, Desc: fmt.Sprintf("PAX records %q", rec)})
			}
		}
		errs := map[string]bool{}
		pool.Map("rawunpack", len(args), func(i int) any { return args[i] }, func(i int, r core.Result) {
			var out RawUnpackOut
			if !r.Hung && !r.Crashed && r.Panic == "" && r.Err == "" {
				json.Unmarshal(r.Out, &out)
				rep.Outcome("returned")
				cls := out.Err
				if k := strings.Index(cls, ":"); k > 0 {
					cls = cls[:k]
				}
				errs[cls] = true
				rep.Nontrivial("unpack:" + cls + fmt.Sprint(strings.Contains(out.Err, "illegal")))
				if i%997 == 0 {
					rep.Sample("Unpack " + args[i].Desc + fmt.Sprintf(" => err=%q", out.Err))
				}
			}
			record("slug.Unpack", "Unpack "+args[i].Desc, r, out.Panic, "rawunpack", args[i])
		})
		rep.States += len(args)
		parts = append(parts, map[string]any{"part": "unpack-header-mutations+truncations", "cases": len(args), "distinct_error_classes": len(errs)})
		fmt.Printf("  part unpack: cases=%d distinct error classes=%d\n", len(args), len(errs))
	} else {
		rep.Exhaustive = false
	}

	for _, extra := range c19ExtraParts {
		if time.Now().After(deadline) {
			rep.Exhaustive = false
			break
		}
		parts = append(parts, extra(rep, pool, thorough, record))
	}

	rep.Transitions = rep.Evaluations
	rep.Extra["parts"] = parts
	rep.Extra["worker_crashes"] = pool.Crashes
	rep.Extra["worker_hangs"] = pool.Hangs
	rep.Rule = "exhaustive enumeration (no sampling, no coverage guidance) of: Pack on every <=k-node extension of a base tree with link cycles, self links, links to fifos, odd names, × 4 option sets, and every rule file of <=2/3 lines over a 20-line alphabet; Unpack on every single-field header mutation (all 256 typeflags, sizes, names, link names, prefix, mode, mtime, checksum) and every gzip truncation of every <=2-entry archive; address parsers on every token string; OpenDir on generated manifests. Each case runs in a watched worker (20 s watchdog, 64 MiB stack cap). Non-trivial = returned; distinct by outcome class."
	rep.Assumptions = []string{"the 20 s watchdog on millisecond tasks is the only wall-clock oracle; a case that merely is slow (>20 s) would be misreported as a hang"}
	return rep.Finish()
}

// c19ExtraParts lets other files (address parsers, manifests) add their enumerations.
var c19ExtraParts []func(rep *core.Report, pool *core.Pool, thorough bool, record func(site, desc string, r core.Result, panicMsg string, sys string, arg any)) map[string]any
