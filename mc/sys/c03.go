package sys

import (
	"archive/tar"
	"fmt"
	"sort"
	"strings"
	"time"

	"verif/mc/core"
	"verif/mc/ref"
)

// C03 — what is shipped is decided by .terraformignore semantics on archive paths.

func c03Universe(which int) []TNode {
	f := func(p string) TNode { return TNode{Path: "src/" + p, Kind: "file", Body: p} }
	var ns []TNode
	common := []string{".git/x", ".terraform/y", ".terraform/modules/m", "sub/.git/x", "sub/.terraform/modules/m", "sub/.terraform/z", "sub/a"}
	if which == 1 || which == 2 {
		// regular FILES named like the directories the built-in rules are about (a worktree's or submodule's .git file)
		common = append(common, "w/.git", "w/.terraform")
	}
	var files []string
	if which == 1 {
		files = []string{"a/a", "a/b", "a/ab/a", "a/ab/b", "ab/a", "ab/b/a", "ab/b/ab", "b", "aab", "a+b", "a.b", "axb", "(a)", "é", "a/é", "A", "B/a"}
	} else if which == 3 {
		// names with a newline (Pack consumers only: the bundle's content hash refuses such names)
		files = []string{"a/b", "b", "a/n\nl", "n\nl/b", "a/ab/b"}
	} else {
		files = []string{"a", "ab", "b/a", "b/ab", "b/b/a", "aab/b/a", "aab/a", "a+b/a", "a.b/b", "axb/a", "axb/b/ab", "é/a", "b/é", "A/b"}
	}
	for _, p := range append(files, common...) {
		ns = append(ns, f(p))
	}
	return ns
}

// universe below an out-of-tree directory reached through src/ext (dereferencing)
func c03ExtUniverse(extAt string) []TNode {
	ns := c03Universe(1)
	var out []TNode
	for _, n := range ns {
		if strings.Contains(n.Path, ".git") || strings.Contains(n.Path, ".terraform") || strings.HasPrefix(n.Path, "src/sub") {
			continue
		}
		out = append(out, TNode{Path: "out/u/" + strings.TrimPrefix(n.Path, "src/"), Kind: "file", Body: n.Body})
	}
	out = append(out, TNode{Path: "src/" + extAt, Kind: "link", Target: strings.Repeat("../", strings.Count(extAt, "/")+1) + "out/u"}, TNode{Path: "src/b", Kind: "file", Body: "b"},
		TNode{Path: "src/zfile", Kind: "file", Body: "zfile"}, TNode{Path: "src/zdir/f", Kind: "file", Body: "zdir/f"}) // siblings sorting after the link
	if extAt != "a/b" {
		out = append(out, TNode{Path: "src/a/b", Kind: "file", Body: "a/b"})
	} else {
		out = append(out, TNode{Path: "src/a/a", Kind: "file", Body: "a/a"}) // the link sits below a real directory, next to a file
	}
	return out
}

func c03Rules(core bool) []string {
	segs := []string{"a", "b", "*", "a*", "?b", "**", "a+b", "a.b", "(a)", "ab"}
	if core {
		segs = []string{"a", "b", "*", "**"}
	}
	var pats []string
	for _, s := range segs {
		pats = append(pats, s)
	}
	for _, s1 := range segs {
		for _, s2 := range segs {
			if s1 == "**" && s2 == "**" {
				continue
			}
			pats = append(pats, s1+"/"+s2)
		}
	}
	var rules []string
	for _, p := range pats {
		for _, anch := range []string{"", "/"} {
			for _, trail := range []string{"", "/"} {
				for _, neg := range []string{"", "!"} {
					rules = append(rules, neg+anch+p+trail)
				}
			}
		}
	}
	return rules
}

type c03Consumer struct {
	Name   string
	Ignore bool
	Deref  bool
	Ext    bool
	ExtAt  string // archive path of the link to the out-of-tree directory ("ext" when empty)
	Legacy bool
}

func (c c03Consumer) extAt() string {
	if c.ExtAt == "" {
		return "ext"
	}
	return c.ExtAt
}

func RunC03(tier string) int {
	rep := core.NewReport("C03", tier)
	thorough := tier == "thorough"
	deadline := time.Now().Add(180 * time.Second)
	if thorough {
		deadline = time.Now().Add(28 * time.Minute)
	}
	pool := core.NewPool(0)
	consumers := []c03Consumer{{Name: "Pack+ignore", Ignore: true}, {Name: "Pack+ignore+deref(ext dir)", Ignore: true, Deref: true, Ext: true},
		{Name: "Pack no-ignore", Ignore: false}, {Name: "slug.Pack legacy", Legacy: true}}
	// the same, with the link one level down (the rules must see the whole archive path a/b/..., not the link's own name)
	nestedExt := c03Consumer{Name: "Pack+ignore+deref(ext dir below a/)", Ignore: true, Deref: true, Ext: true, ExtAt: "a/b"}

	type job struct {
		rules    []string
		universe int
		cons     c03Consumer
		noNL     bool
		special  string // the rule file is not a regular file: "dir", "fifo", "link-to-fifo" (then only the built-in rules apply)
	}
	var setStats []map[string]any
	runJobs := func(name string, jobs []job) {
		if time.Now().After(deadline) {
			rep.Exhaustive = false
			return
		}
		args := make([]PackArg, len(jobs))
		n0 := rep.Evaluations
		pool.Map("pack", len(jobs), func(i int) any {
			j := jobs[i]
			var nodes []TNode
			if j.cons.Ext {
				nodes = c03ExtUniverse(j.cons.extAt())
			} else {
				nodes = c03Universe(j.universe)
			}
			text := strings.Join(j.rules, "\n") + "\n"
			if j.noNL {
				text = strings.Join(j.rules, "\n") // the last line is not newline-terminated
			}
			switch j.special {
			case "":
				nodes = append(nodes, TNode{Path: "src/.terraformignore", Kind: "file", Body: text})
			case "absent":
				// no rule file at all: the library's shared default rule set, not a parsed copy of it
			case "dir":
				nodes = append(nodes, TNode{Path: "src/.terraformignore", Kind: "dir"})
			case "fifo":
				nodes = append(nodes, TNode{Path: "src/.terraformignore", Kind: "fifo"})
			case "link-to-fifo":
				nodes = append(nodes, TNode{Path: "out/ff", Kind: "fifo"}, TNode{Path: "src/.terraformignore", Kind: "link", Target: "../out/ff"})
			}
			args[i] = PackArg{Nodes: nodes, Ignore: j.cons.Ignore, Deref: j.cons.Deref, Legacy: j.cons.Legacy, NoTrees: true}
			return args[i]
		}, func(i int, r core.Result) {
			j := jobs[i]
			rep.Evaluations++
			desc := fmt.Sprintf("consumer=%s universe=%d rules=%s final-newline=%v", j.cons.Name, j.universe, rulesDesc(j.rules), !j.noNL)
			if j.special != "" {
				desc = fmt.Sprintf("consumer=%s universe=%d rule file: %s (only the built-in rules can apply)", j.cons.Name, j.universe, j.special)
			}
			if r.Hung || r.Crashed {
				rep.Violation("slug.Pack/hang-or-crash", desc+" "+firstLines(r.Stderr, 3), "pack", args[i])
				return
			}
			var out PackOut
			core.MustOut(r, &out)
			if out.SetupErr != "" {
				core.Fatalf("setup: %s", out.SetupErr)
			}
			if out.Panic != "" {
				rep.Outcome("panic")
				rep.Violation("slug.Pack/panic", desc+" panic: "+out.Panic, "pack", args[i])
				return
			}
			if out.Err != "" {
				rep.NoVerdict++
				rep.Outcome("pack-error(no verdict)")
				return
			}
			present := map[string]bool{}
			for _, e := range out.Entries {
				if e.Type == tar.TypeReg {
					present[e.Name] = true
				}
			}
			rules := ref.Builtin()
			if j.special == "" {
				rules = append(rules, ref.ParseRules(strings.Join(j.rules, "\n"))...)
			}
			applies := j.cons.Ignore || j.cons.Legacy
			var wrongOut, wrongIn []string
			changed := false
			for _, n := range args[i].Nodes {
				if n.Kind != "file" {
					continue
				}
				var ap string // archive path
				switch {
				case strings.HasPrefix(n.Path, "src/"):
					ap = strings.TrimPrefix(n.Path, "src/")
				case strings.HasPrefix(n.Path, "out/u/"):
					ap = j.cons.extAt() + "/" + strings.TrimPrefix(n.Path, "out/u/")
				default:
					continue
				}
				if j.cons.Ext && strings.HasPrefix(ap, j.cons.extAt()+"/") && applies && ref.Excluded(rules, j.cons.extAt()) {
					// the link that brings these paths into the slug is itself excluded by
					// its own path: nothing is demanded for what it would have brought in
					continue
				}
				ex := applies && ref.Excluded(rules, ap)
				if applies && ex != ref.Excluded(ref.Builtin(), ap) {
					changed = true
				}
				if ex && present[ap] {
					wrongIn = append(wrongIn, ap)
				}
				if !ex && !present[ap] {
					wrongOut = append(wrongOut, ap)
				}
			}
			if changed {
				var names []string
				for n := range present {
					names = append(names, n)
				}
				sort.Strings(names)
				rep.Nontrivial(j.cons.Name + fmt.Sprint(j.universe) + strings.Join(names, ","))
			}
			rep.Outcome("compared")
			if len(wrongIn)+len(wrongOut) > 0 {
				sort.Strings(wrongIn)
				sort.Strings(wrongOut)
				sig := "slug.Pack/" + c03Classify(j.rules, j.cons, wrongIn, wrongOut)
				rep.Violation(sig, fmt.Sprintf("%s :: excluded-by-rules-but-shipped=%q not-excluded-but-missing=%q", desc, wrongIn, wrongOut), "pack", args[i])
			}
			if i%211 == 0 {
				rep.Sample(fmt.Sprintf("%s => shipped %d regular entries", desc, len(present)))
			}
		})
		rep.States += len(jobs)
		rep.Transitions += rep.Evaluations - n0
		setStats = append(setStats, map[string]any{"set": name, "runs": len(jobs)})
		fmt.Printf("  set %s: runs=%d\n", name, len(jobs))
	}

	var three3 [][]string
	var longAndBig [][]string
	all := c03Rules(false)
	coreRules := c03Rules(true)
	mk := func(ruleFiles [][]string, universes []int, cons []c03Consumer) []job {
		var js []job
		for _, rf := range ruleFiles {
			for _, c := range cons {
				us := universes
				if c.Ext {
					us = []int{1}
				}
				for _, u := range us {
					js = append(js, job{rules: rf, universe: u, cons: c})
				}
			}
		}
		return js
	}
	// 0 rules and comment/blank variants
	misc := [][]string{{}, {"# comment"}, {"", "a/"}, {"#a", "b"}, {"  a/  "}, {"a/", "", "!a/b"},
		{"A/"}, {"B"}, {"a/", "!A/b"}, {"a/\r"}, {"\ta/"}, {"a/\r", "!a/b\r"}, {"#", "b"}, {"!"}, {"!", "b"}, {"\\#a"}, {"b #x"},
		{"é"}, {"é/"}, {"a/é"}, {"*é"}, {"?"}, {"a/?"}, {"*", "!é"}, {"*", "!a/é"}, {"É"}, {"a/", "!a/é"}, {"/é"}, {"b/é"}}
	runJobs("misc(comment/blank/indent)", mk(misc, []int{1, 2}, consumers))
	var one [][]string
	for _, r := range all {
		one = append(one, []string{r})
	}
	runJobs("1-rule files (full alphabet)", mk(one, []int{1, 2}, consumers))
	runJobs("1-rule files (full alphabet), dereferenced dir below a/", mk(one, []int{1}, []c03Consumer{nestedExt}))
	{
		// the rule file is there but is not a regular file; and lines far longer than any buffer
		var js []job
		for _, sp := range []string{"absent", "dir", "fifo", "link-to-fifo"} {
			for _, j := range mk([][]string{{}}, []int{1, 2}, consumers) {
				j.special = sp
				js = append(js, j)
			}
		}
		long := func(n int, tail string) string { return "#" + strings.Repeat("x", n-1-len(tail)) + tail }
		longFiles := [][]string{{long(4097, "b")}, {long(4100, "*a*")}, {long(5000, ""), "a/"}, {"a/", long(8193, "!a/b")}, {long(70000, "b"), "a/"}, {"b", long(70000, "")},
			{strings.Repeat("x", 4096) + "b"}, {"a/", strings.Repeat("y", 70000)}}
		// rule files of more than 1 and 2 MiB made of ordinary lines, the deciding rules first and last
		pad := make([]string, 0, 45000)
		for k := 0; k < 45000; k++ {
			pad = append(pad, "# padding padding padding padding padding 0123456789")
		}
		bigFiles := [][]string{append(append([]string{}, pad[:22000]...), "b"), append(append([]string{"a/"}, pad[:22000]...), "!a/b"), append(append([]string{"a/"}, pad...), "!a/b", "b")}
		longFiles = append(longFiles, bigFiles...)
		longAndBig = longFiles
		js = append(js, mk(longFiles, []int{1}, consumers[:2])...)
		runJobs("rule file that is not a regular file; very long lines", js)
	}
	{
		var js []job
		for _, j := range mk(append(append([][]string{}, misc...), one...), []int{3}, consumers) {
			if !j.cons.Ext {
				js = append(js, j)
			}
		}
		for _, r1 := range []string{"a/", "b", "*", "**/b", "n*/"} {
			for _, r2 := range []string{"!a/b", "!b", "!other", "!n*/b"} {
				js = append(js, mk([][]string{{r1, r2}}, []int{3}, consumers[:1])...)
			}
		}
		runJobs("names containing a newline (universe 3)", js)
	}
	{
		// the same rule files without a final newline, and 2-rule files over a small core
		var js []job
		for _, j := range mk(one, []int{1}, consumers[:2]) {
			j.noNL = true
			js = append(js, j)
		}
		for _, r1 := range []string{"a/", "b", "!a/b", "*"} {
			for _, r2 := range []string{"a/", "b", "!a/b", "!b", "ab/"} {
				for _, j := range mk([][]string{{r1, r2}}, []int{1}, consumers[:2]) {
					j.noNL = true
					js = append(js, j)
				}
			}
		}
		runJobs("rule files whose last line has no newline", js)
	}
	var two [][]string
	src2 := coreRules
	if thorough {
		src2 = all
	}
	for _, r1 := range src2 {
		for _, r2 := range src2 {
			two = append(two, []string{r1, r2})
		}
	}
	if thorough {
		// full alphabet squared (≈774k rule files): plain Pack on universe 1; the other
		// consumer/universe combinations run on the half alphabet without parenthesised/dotted segments
		runJobs("2-rule files (full alphabet), Pack+ignore, universe 1", mk(two, []int{1}, consumers[:1]))
		var twoHalf [][]string
		for _, rf := range two {
			if !strings.ContainsAny(rf[0]+rf[1], "(.+?") {
				twoHalf = append(twoHalf, rf)
			}
		}
		runJobs("2-rule files (segments a,b,*,a*,**,ab), deref consumer + universe 2", append(mk(twoHalf, []int{1}, consumers[1:2]), mk(twoHalf, []int{2}, consumers[:1])...))
		runJobs("2-rule files (segments a,b,*,a*,**,ab), dereferenced dir below a/", mk(twoHalf, []int{1}, []c03Consumer{nestedExt}))
		two = twoHalf
	} else {
		// quick: 2-rule files over the core alphabet; the second universe only for plain Pack
		runJobs("2-rule files (core alphabet)", mk(two, []int{1}, consumers[:2]))
		runJobs("2-rule files (core alphabet), dereferenced dir below a/", mk(two, []int{1}, []c03Consumer{nestedExt}))
	}
	{
		var three [][]string
		small := []string{"a/", "!a/b", "a/*", "!a/ab/", "/ab", "**/b", "!b", "*", "!*/a", "ab/b/", "!/a/ab/a", "a*"}
		if !thorough {
			small = []string{"!b", "a/", "!a/b", "ab/b/", "!ab/b/a", "a/*"}
		}
		for _, r1 := range small {
			for _, r2 := range small {
				for _, r3 := range small {
					three = append(three, []string{r1, r2, r3})
				}
			}
		}
		runJobs(fmt.Sprintf("3-rule files (%d-rule core)", len(small)), mk(three, []int{1, 2}, consumers[:2]))
		three3 = three
	}
	// ---- consumer: packages fetched into a bundle ----
	runBundle := func(name string, ruleFiles [][]string, universes []int) {
		if time.Now().After(deadline) {
			rep.Exhaustive = false
			return
		}
		type bj struct {
			rules []string
			u     int
		}
		var bjobs []bj
		for _, rf := range ruleFiles {
			for _, u := range universes {
				bjobs = append(bjobs, bj{rf, u})
			}
		}
		bargs := make([]BuildArg, len(bjobs))
		failed := 0
		pool.Map("build", len(bjobs), func(i int) any {
			var files []TNode
			for _, n := range c03Universe(bjobs[i].u) {
				files = append(files, TNode{Path: strings.TrimPrefix(n.Path, "src/"), Kind: "file", Body: n.Body})
			}
			files = append(files, TNode{Path: ".terraformignore", Kind: "file", Body: strings.Join(bjobs[i].rules, "\n") + "\n"})
			bargs[i] = BuildArg{World: World{Pkgs: []WPkg{{Addr: P1, Files: files, NilMeta: true}}}, Adds: []AddCall{{Kind: "remote", Addr: P1, Finder: "F1"}}, Probes: []string{P1}}
			return bargs[i]
		}, func(i int, r core.Result) {
			rep.Evaluations++
			desc := fmt.Sprintf("consumer=bundle-package universe=%d rules=%s", bjobs[i].u, rulesDesc(bjobs[i].rules))
			if r.Hung || r.Crashed {
				rep.Violation("sourcebundle.Builder/hang-or-crash", desc, "build", bargs[i])
				return
			}
			var out BuildOut
			core.MustOut(r, &out)
			if out.Bundle == nil {
				failed++
				rep.NoVerdict++
				rep.Outcome("bundle-build-failed(no verdict)")
				for _, a := range out.Adds {
					if a.Panic != "" {
						rep.Violation("sourcebundle.Builder/panic", desc+" panic: "+a.Panic, "build", bargs[i])
					}
				}
				return
			}
			rules := append(ref.Builtin(), ref.ParseRules(strings.Join(bjobs[i].rules, "\n"))...)
			present := map[string]bool{}
			for _, n := range out.Bundle.Nodes {
				if n.Type == "file" {
					present[n.Rel] = true
				}
			}
			var wrongIn, wrongOut []string
			for _, f := range bargs[i].World.Pkgs[0].Files {
				ex := ref.Excluded(rules, f.Path)
				if ex && present[f.Path] {
					wrongIn = append(wrongIn, f.Path)
				}
				if !ex && !present[f.Path] {
					wrongOut = append(wrongOut, f.Path)
				}
			}
			rep.Outcome("compared")
			if len(wrongIn)+len(wrongOut) > 0 {
				sort.Strings(wrongIn)
				sort.Strings(wrongOut)
				sig := "sourcebundle.Builder/" + c03Classify(bjobs[i].rules, c03Consumer{Ignore: true}, wrongIn, wrongOut)
				rep.Violation(sig, fmt.Sprintf("%s :: excluded-by-rules-but-kept=%q not-excluded-but-removed=%q", desc, wrongIn, wrongOut), "build", bargs[i])
			}
		})
		rep.States += len(bjobs)
		rep.Transitions += len(bjobs)
		setStats = append(setStats, map[string]any{"set": name, "runs": len(bjobs), "failed_builds_no_verdict": failed})
		fmt.Printf("  set %s: runs=%d (failed builds, no verdict: %d)\n", name, len(bjobs), failed)
	}
	runBundle("bundle: misc", misc, []int{1, 2})
	runBundle("bundle: very long lines, rule files above 1 MiB", longAndBig, []int{1})
	runBundle("bundle: 3-rule files", three3, []int{1})
	runBundle("bundle: 1-rule files (full alphabet)", one, []int{1, 2})
	if thorough {
		runBundle("bundle: 2-rule files (full alphabet)", two, []int{1})
	} else {
		runBundle("bundle: 2-rule files (core alphabet)", two, []int{1})
	}
	rep.Extra["sets"] = setStats
	rep.Extra["rule_alphabet"] = len(all)
	rep.Rule = "every rule file of 1 rule (880-rule alphabet: 1-2 segment patterns over {a,b,*,a*,?b,**,a+b,a.b,(a),ab} × anchoring × trailing slash × negation), 2 rules (core alphabet quick / full thorough), 3 rules (12-rule core, thorough) × 2 path universes × consumers {Pack+ignore, Pack+ignore+deref through an out-of-tree dir (linked at the top and one level down), Pack without ignore, legacy slug.Pack, package fetched into a bundle}; oracle: own-path verdict of a segment-wise matcher (ref/glob) for every non-directory path. Non-trivial = the rule file changes at least one verdict relative to the built-in rules; distinct by shipped set."
	rep.Assumptions = []string{"verdicts are demanded for non-directory paths only", "'**' is used as a whole segment only", "a failed bundle build is no verdict (counted)"}
	return rep.Finish()
}

// c03Classify attributes a mismatch to facts of the rule file alone.
func c03Classify(rules []string, c c03Consumer, wrongIn, wrongOut []string) string {
	meta := false
	for _, r := range rules {
		if strings.ContainsAny(r, "+()|{}^") {
			meta = true
		}
	}
	var parts []string
	if !c.Ignore && !c.Legacy {
		parts = append(parts, "ignore-off-but-filtered")
	}
	if c.Ext {
		onlyExt := true
		for _, p := range append(append([]string{}, wrongIn...), wrongOut...) {
			if !strings.HasPrefix(p, c.extAt()+"/") {
				onlyExt = false
			}
		}
		if onlyExt {
			parts = append(parts, "inside-dereferenced-dir")
		}
	}
	if meta {
		parts = append(parts, "regexp-metachar-in-pattern")
	}
	if len(wrongOut) > 0 {
		parts = append(parts, "not-excluded-file-missing")
	}
	if len(wrongIn) > 0 {
		parts = append(parts, "excluded-file-shipped")
	}
	return strings.Join(parts, "/")
}

// rulesDesc prints a rule file for a report: runs of identical lines are collapsed and very long lines abbreviated.
func rulesDesc(rules []string) string {
	var parts []string
	for i := 0; i < len(rules); {
		j := i
		for j < len(rules) && rules[j] == rules[i] {
			j++
		}
		r := rules[i]
		if len(r) > 120 {
			r = fmt.Sprintf("%s…(%d bytes)…%s", r[:40], len(r), r[len(r)-20:])
		}
		q := fmt.Sprintf("%q", r)
		if j-i > 1 {
			q += fmt.Sprintf("×%d", j-i)
		}
		parts = append(parts, q)
		i = j
	}
	return "[" + strings.Join(parts, " ") + "]"
}
