package sys

import (
	"context"
	"encoding/json"
	"errors"
	"fmt"
	"io/fs"
	"net/url"
	"os"
	"path/filepath"
	"sort"
	"strings"
	"sync"

	"github.com/apparentlymart/go-versions/versions"
	"github.com/hashicorp/go-slug/sourceaddrs"
	"github.com/hashicorp/go-slug/sourcebundle"
	regaddr "github.com/hashicorp/terraform-registry-address"

	"verif/mc/core"
	"verif/mc/fsx"
)

// A World scripts everything the builder's environment answers: what the
// fetcher materialises for a package address, what the registry lists, and
// which dependencies each finder reports at each location.

type WPkg struct {
	Addr    string   `json:"addr"`              // remote package address
	Content string   `json:"content,omitempty"` // content class; packages with the same class have identical files ("" = Addr)
	Locs    []string `json:"locs,omitempty"`    // module locations that exist ("" = root always exists)
	Files   []TNode  `json:"files,omitempty"`   // extra nodes, paths relative to the package root
	MetaID  string   `json:"meta_id,omitempty"`
	MetaMsg string   `json:"meta_msg,omitempty"`
	NilMeta bool     `json:"nil_meta,omitempty"`
}

type WVer struct {
	V          string `json:"v"`
	Source     string `json:"source"` // remote source address the registry names for this version
	Deprecated bool   `json:"deprecated,omitempty"`
	Reason     string `json:"reason,omitempty"`
	Link       string `json:"link,omitempty"`
}

type WReg struct {
	Pkg      string `json:"pkg"`
	Versions []WVer `json:"versions"`
}

type WEdge struct {
	Content string `json:"content"` // content class of the declaring package
	Loc     string `json:"loc"`     // sub-path being analysed
	Finder  string `json:"finder"`
	Kind    string `json:"kind"` // remote registry local
	Target  string `json:"target"`
	Allowed string `json:"allowed,omitempty"`
	TFinder string `json:"tfinder"`
}

type World struct {
	Pkgs  []WPkg  `json:"pkgs"`
	Regs  []WReg  `json:"regs,omitempty"`
	Edges []WEdge `json:"edges,omitempty"`
}

type AddCall struct {
	Kind    string `json:"kind"` // remote registry final
	Addr    string `json:"addr"`
	Allowed string `json:"allowed,omitempty"`
	Finder  string `json:"finder"`
}

func (a AddCall) String() string {
	s := a.Kind + ":" + a.Addr
	if a.Allowed != "" {
		s += "[" + a.Allowed + "]"
	}
	return s + "/" + a.Finder
}

func (w World) pkg(addr string) *WPkg {
	for i := range w.Pkgs {
		if w.Pkgs[i].Addr == addr {
			return &w.Pkgs[i]
		}
	}
	return nil
}

func (p WPkg) content() string {
	if p.Content != "" {
		return p.Content
	}
	return p.Addr
}

func (w World) reg(pkg string) *WReg {
	for i := range w.Regs {
		if w.Regs[i].Pkg == pkg {
			return &w.Regs[i]
		}
	}
	return nil
}

// ParseAllowed turns an allowed-set spec into a versions.Set.
func ParseAllowed(spec string) versions.Set {
	switch {
	case spec == "" || spec == "all":
		return versions.All
	case spec == "released":
		return versions.Released
	case strings.HasPrefix(spec, "only:"):
		return versions.Only(versions.MustParseVersion(strings.TrimPrefix(spec, "only:")))
	case strings.HasPrefix(spec, "sel:"):
		var vs []versions.Version
		for _, s := range strings.Split(strings.TrimPrefix(spec, "sel:"), ",") {
			vs = append(vs, versions.MustParseVersion(s))
		}
		return versions.Selection(vs...)
	case strings.HasPrefix(spec, "ruby:"):
		s, err := versions.MeetingConstraintsStringRuby(strings.TrimPrefix(spec, "ruby:"))
		if err != nil {
			panic("INTERNAL: bad constraint " + spec + ": " + err.Error())
		}
		return s
	}
	panic("INTERNAL: allowed spec " + spec)
}

// ---------------------------------------------------------------------------
// environment with choice points (E2)

type Point struct {
	Label string `json:"label"`
	N     int    `json:"n"`
	Chose int    `json:"chose"`
	Add   int    `json:"add"` // index of the Add call being executed
}

type env struct {
	mu        sync.Mutex
	choices   []int
	pos       int
	Points    []Point
	BadPick   string
	hook      func(label string) // called at every callback boundary (crash points / scheduling)
	around    string             // directory surrounding the bundle target ("<AROUND>" in link targets)
	curAdd    int
	forceFind int
	shared    sourcebundle.Diagnostics // the one slice a singleton finder keeps returning
	failFetch string                   // package whose fetch always fails (schedule-independent fault for E3)
}

// Choose returns the scripted answer at this point (0 = default).
func (e *env) Choose(label string, n int) int {
	e.mu.Lock()
	defer e.mu.Unlock()
	c := 0
	if e.forceFind != 0 && strings.HasPrefix(label, "find ") {
		e.Points = append(e.Points, Point{label, n, e.forceFind, e.curAdd})
		return e.forceFind
	}
	if e.pos < len(e.choices) {
		c = e.choices[e.pos]
	}
	e.pos++
	if c >= n {
		e.BadPick = fmt.Sprintf("choice %d out of range at point %d (%s, n=%d)", c, e.pos-1, label, n)
		c = 0
	}
	e.Points = append(e.Points, Point{label, n, c, e.curAdd})
	return c
}

type callLog struct {
	mu    sync.Mutex
	Calls []string
}

func (l *callLog) add(s string) {
	l.mu.Lock()
	l.Calls = append(l.Calls, s)
	n := len(l.Calls)
	l.mu.Unlock()
	if n > 3000 {
		panic("CALLBACK-BUDGET exceeded: the build does not terminate")
	}
}

type wFetcher struct {
	w   *World
	env *env
	log *callLog
}

var errInjected = errors.New("injected failure")

func (f wFetcher) FetchSourcePackage(ctx context.Context, sourceType string, u *url.URL, targetDir string) (sourcebundle.FetchSourcePackageResponse, error) {
	var ret sourcebundle.FetchSourcePackageResponse
	rs, err := sourceaddrs.MakeRemoteSource(sourceType, u, "")
	if err != nil {
		return ret, fmt.Errorf("harness: cannot rebuild package address: %v", err)
	}
	key := rs.Package().String()
	f.log.add("fetch " + key)
	if f.env.hook != nil {
		f.env.hook("fetch:enter " + key)
		defer f.env.hook("fetch:exit " + key)
	}
	p := f.w.pkg(key)
	if p == nil {
		return ret, fmt.Errorf("harness: unknown package %s", key)
	}
	if f.env.failFetch == key {
		os.WriteFile(filepath.Join(targetDir, "partial"), []byte("x"), 0644)
		return ret, errInjected
	}
	if f.env.Choose("fetch "+key, 2) == 1 {
		// a failing fetcher may leave partial content behind
		os.WriteFile(filepath.Join(targetDir, "partial"), []byte("x"), 0644)
		return ret, errInjected
	}
	pp := *p
	pp.Files = append([]TNode{}, p.Files...)
	for i := range pp.Files {
		pp.Files[i].Target = strings.ReplaceAll(pp.Files[i].Target, "<AROUND>", f.env.around)
		// a fetcher knows the name of the (temporary) directory it was told to fill
		pp.Files[i].Target = strings.ReplaceAll(pp.Files[i].Target, "<TMPBASE>", filepath.Base(targetDir))
	}
	if err := materialisePkg(pp, targetDir); err != nil {
		return ret, fmt.Errorf("harness: %v", err)
	}
	if !p.NilMeta {
		ret.PackageMeta = sourcebundle.PackageMetaWithGitMetadata(p.MetaID, p.MetaMsg)
	}
	return ret, nil
}

func materialisePkg(p WPkg, dir string) error {
	nodes := []TNode{{Path: ".pkgid", Kind: "file", Body: p.content()}, {Path: "marker-root", Kind: "file", Body: "root of " + p.content()}}
	for _, l := range p.Locs {
		if l != "" {
			nodes = append(nodes, TNode{Path: l + "/marker", Kind: "file", Body: "loc " + l + " of " + p.content()})
		}
	}
	nodes = append(nodes, p.Files...)
	return BuildTreeNoTimes(dir, nodes)
}

// BuildTreeNoTimes builds nodes below dir (paths relative to dir) applying modes only.
func BuildTreeNoTimes(dir string, nodes []TNode) error {
	rel := make([]TNode, len(nodes))
	copy(rel, nodes)
	return BuildTree(dir, rel)
}

type wRegistry struct {
	w   *World
	env *env
	log *callLog
}

func (r wRegistry) ModulePackageVersions(ctx context.Context, pkgAddr regaddr.ModulePackage) (sourcebundle.ModulePackageVersionsResponse, error) {
	var ret sourcebundle.ModulePackageVersionsResponse
	key := pkgAddr.String()
	r.log.add("versions " + key)
	if r.env.hook != nil {
		r.env.hook("versions:enter " + key)
		defer r.env.hook("versions:exit " + key)
	}
	if r.env.Choose("versions "+key, 2) == 1 {
		return ret, errInjected
	}
	g := r.w.reg(key)
	if g == nil {
		return ret, fmt.Errorf("harness: unknown registry package %s", key)
	}
	for _, v := range g.Versions {
		info := sourcebundle.ModulePackageInfo{Version: versions.MustParseVersion(v.V)}
		if v.Deprecated {
			info.Deprecation = &sourcebundle.ModulePackageVersionDeprecation{Reason: v.Reason, Link: v.Link}
		}
		ret.Versions = append(ret.Versions, info)
	}
	return ret, nil
}

func (r wRegistry) ModulePackageSourceAddr(ctx context.Context, pkgAddr regaddr.ModulePackage, version versions.Version) (sourcebundle.ModulePackageSourceAddrResponse, error) {
	var ret sourcebundle.ModulePackageSourceAddrResponse
	key := pkgAddr.String() + "@" + version.String()
	r.log.add("sourceaddr " + key)
	if r.env.hook != nil {
		r.env.hook("sourceaddr:enter " + key)
		defer r.env.hook("sourceaddr:exit " + key)
	}
	if r.env.Choose("sourceaddr "+key, 2) == 1 {
		return ret, errInjected
	}
	g := r.w.reg(pkgAddr.String())
	if g != nil {
		for _, v := range g.Versions {
			if versions.MustParseVersion(v.V) == version {
				src, err := sourceaddrs.ParseRemoteSource(v.Source)
				if err != nil {
					return ret, fmt.Errorf("harness: bad source %q: %v", v.Source, err)
				}
				ret.SourceAddr = src
				return ret, nil
			}
		}
	}
	return ret, fmt.Errorf("harness: registry has no %s", key)
}

// wFinder is comparable (string + pointers) as the builder requires.
type wFinder struct {
	id   string
	w    *World
	env  *env
	log  *callLog
	flip bool // report the edge list in reverse order
}

type wDiag struct {
	sev     sourcebundle.DiagSeverity
	summary string
	detail  string
	subject string
	context string
	extra   any
}

func (d wDiag) Severity() sourcebundle.DiagSeverity { return d.sev }
func (d wDiag) Description() sourcebundle.DiagDescription {
	return sourcebundle.DiagDescription{Summary: d.summary, Detail: d.detail}
}
func (d wDiag) Source() sourcebundle.DiagSource {
	var s sourcebundle.DiagSource
	if d.subject != "" {
		s.Subject = &sourcebundle.SourceRange{Filename: d.subject, Start: sourcebundle.SourcePos{Line: 1, Column: 2, Byte: 3}, End: sourcebundle.SourcePos{Line: 4, Column: 5, Byte: 6}}
	}
	if d.context != "" {
		s.Context = &sourcebundle.SourceRange{Filename: d.context, Start: sourcebundle.SourcePos{Line: 7, Column: 8, Byte: 9}}
	}
	return s
}
func (d wDiag) ExtraInfo() interface{} { return d.extra }

// wFinderB is a different Go type with exactly the same fields (and therefore
// the same %v rendering) as wFinder: a finder "G<n>" is wFinderB{id:"F<n>"}.
// A builder that tells finders apart by anything weaker than == confuses them.
type wFinderB wFinder

func (f wFinderB) FindDependencies(fsys fs.FS, subPath string, deps *sourcebundle.Dependencies) sourcebundle.Diagnostics {
	return wFinder(f).find("G"+f.id[1:], fsys, subPath, deps)
}

func (f wFinder) FindDependencies(fsys fs.FS, subPath string, deps *sourcebundle.Dependencies) sourcebundle.Diagnostics {
	return f.find(f.id, fsys, subPath, deps)
}

// newFinder maps a finder name of the world ("F1", "G1", ...) to a finder value.
func newFinder(name string, w *World, e *env, log *callLog, flip bool) sourcebundle.DependencyFinder {
	if strings.HasPrefix(name, "G") {
		return wFinderB{id: "F" + name[1:], w: w, env: e, log: log, flip: flip}
	}
	return wFinder{id: name, w: w, env: e, log: log, flip: flip}
}

func (f wFinder) find(name string, fsys fs.FS, subPath string, deps *sourcebundle.Dependencies) sourcebundle.Diagnostics {
	idb, err := fs.ReadFile(fsys, ".pkgid")
	content := string(idb)
	if err != nil {
		content = "UNREADABLE(" + err.Error() + ")"
	}
	key := fmt.Sprintf("%s//%s by %s", content, subPath, name)
	f.log.add("find " + key)
	if f.env.hook != nil {
		f.env.hook("find:enter " + key)
		defer f.env.hook("find:exit " + key)
	}
	var edges []WEdge
	for _, e := range f.w.Edges {
		if e.Content == content && e.Loc == subPath && e.Finder == name {
			edges = append(edges, e)
		}
	}
	if f.flip {
		for i, j := 0, len(edges)-1; i < j; i, j = i+1, j-1 {
			edges[i], edges[j] = edges[j], edges[i]
		}
	}
	for _, e := range edges {
		tf := newFinder(e.TFinder, f.w, f.env, f.log, f.flip)
		switch e.Kind {
		case "remote":
			src, err := sourceaddrs.ParseRemoteSource(e.Target)
			if err != nil {
				panic("INTERNAL: bad edge target " + e.Target)
			}
			deps.AddRemoteSource(src, tf)
		case "registry":
			src, err := sourceaddrs.ParseRegistrySource(e.Target)
			if err != nil {
				panic("INTERNAL: bad edge target " + e.Target)
			}
			deps.AddRegistrySource(src, ParseAllowed(e.Allowed), tf)
		case "local":
			src, err := sourceaddrs.ParseLocalSource(e.Target)
			if err != nil {
				panic("INTERNAL: bad edge target " + e.Target)
			}
			deps.AddLocalSource(src, tf)
		}
	}
	switch f.env.Choose("find "+key, 5) {
	case 4:
		// a finder that keeps one diagnostics value around and returns it every time
		f.env.mu.Lock()
		if f.env.shared == nil {
			f.env.shared = sourcebundle.Diagnostics{wDiag{sev: sourcebundle.DiagWarning, summary: "finder warning", detail: "shared warning", subject: "m/main.tf", extra: 42}}
		}
		d := f.env.shared
		f.env.mu.Unlock()
		return d
	case 1:
		return sourcebundle.Diagnostics{wDiag{sev: sourcebundle.DiagError, summary: "finder error", detail: "detail of " + key, extra: "X1"}}
	case 2:
		return sourcebundle.Diagnostics{wDiag{sev: sourcebundle.DiagWarning, summary: "finder warning", detail: "warn " + key, subject: "m/main.tf", extra: 42}}
	case 3:
		return sourcebundle.Diagnostics{wDiag{sev: sourcebundle.DiagError, summary: "finder error with ranges", detail: "d", subject: "m/main.tf", context: "other.tf"},
			wDiag{sev: sourcebundle.DiagWarning, summary: "second", detail: "w", subject: "../not-a-subpath", context: ""}}
	}
	return nil
}

// ---------------------------------------------------------------------------
// build handler

type BuildArg struct {
	World     World     `json:"world"`
	Adds      []AddCall `json:"adds"`
	Flip      bool      `json:"flip,omitempty"`    // finders report edges in reverse order
	Choices   []int     `json:"choices,omitempty"` // E2 choice vector
	Trace     bool      `json:"trace,omitempty"`
	Probes    []string  `json:"probes,omitempty"` // final source addresses to look up
	CrashScan bool      `json:"crash_scan,omitempty"`
	Reopen    bool      `json:"reopen,omitempty"` // also OpenDir + WriteArchive/ExtractArchive (C09)
	PostUse   bool      `json:"post_use,omitempty"`
	ForceFind int       `json:"force_find,omitempty"` // every finder call gives this answer (4 = the SAME warning slice every time, as a singleton finder would)
}

type DiagOut struct {
	Sev     string `json:"sev"`
	Summary string `json:"summary"`
	Detail  string `json:"detail"`
	Subject string `json:"subject,omitempty"`
	Context string `json:"context,omitempty"`
	Extra   string `json:"extra,omitempty"`
	Ranges  string `json:"ranges,omitempty"`
}

type AddOut struct {
	Diags     []DiagOut `json:"diags,omitempty"`
	HasErrors bool      `json:"has_errors,omitempty"`
	Panic     string    `json:"panic,omitempty"`
}

type LookupOut struct {
	Probe   string `json:"probe"`
	Err     string `json:"err,omitempty"`
	Rel     string `json:"rel,omitempty"` // path relative to the bundle root
	Exists  bool   `json:"exists,omitempty"`
	IsDir   bool   `json:"is_dir,omitempty"`
	Canon   string `json:"canon,omitempty"`   // canonical tree below (dir) or content (file)
	Inverse string `json:"inverse,omitempty"` // SourceForLocalPath(path).String() or error
	// expectation computed from the scripted world (remote probes only)
	ExpKnown  bool   `json:"exp_known,omitempty"`
	ExpExists bool   `json:"exp_exists,omitempty"`
	ExpCanon  string `json:"exp_canon,omitempty"`
}

type BundleOut struct {
	Checksum  string            `json:"checksum"`
	Packages  []string          `json:"packages"`
	Meta      map[string]string `json:"meta"`
	RegPkgs   []string          `json:"reg_pkgs"`
	RegVers   map[string]string `json:"reg_vers"` // pkg -> "v1,v2"
	RegSrc    map[string]string `json:"reg_src"`  // pkg@v -> source addr
	RegDep    map[string]string `json:"reg_dep"`  // pkg@v -> deprecation
	Lookups   []LookupOut       `json:"lookups,omitempty"`
	Manifest  string            `json:"manifest"`
	Listing   []string          `json:"listing"`
	TreeCanon string            `json:"tree_canon"`
	Nodes     []PkgNode         `json:"nodes,omitempty"`
}

// PkgNode describes one node of a package directory of a finished bundle.
type PkgNode struct {
	Dir      string `json:"dir"`
	Rel      string `json:"rel"`
	Type     string `json:"type"`
	Target   string `json:"target,omitempty"`
	Resolved string `json:"resolved,omitempty"` // physical resolution relative to the package dir ("../x" = outside)
	ResType  string `json:"res_type,omitempty"` // file dir missing other
}

type BuildOut struct {
	SetupErr   string                         `json:"setup_err,omitempty"`
	Adds       []AddOut                       `json:"adds"`
	CloseErr   string                         `json:"close_err,omitempty"`
	ClosePanic string                         `json:"close_panic,omitempty"`
	Bundle     *BundleOut                     `json:"bundle,omitempty"`
	Reopened   *BundleOut                     `json:"reopened,omitempty"`
	Extracted  *BundleOut                     `json:"extracted,omitempty"`
	ReopenErr  string                         `json:"reopen_err,omitempty"`
	ExtractErr string                         `json:"extract_err,omitempty"`
	Calls      []string                       `json:"calls"`
	Trace      []string                       `json:"trace,omitempty"`
	TraceDiags []DiagOut                      `json:"trace_diags,omitempty"`
	Points     []Point                        `json:"points,omitempty"`
	BadPick    string                         `json:"bad_pick,omitempty"`
	Outside    []string                       `json:"outside,omitempty"`     // changes outside the target dir
	CrashOpens []string                       `json:"crash_opens,omitempty"` // boundaries at which a copy of the target opened as a bundle
	Boundaries int                            `json:"boundaries,omitempty"`
	PostUse    []string                       `json:"post_use,omitempty"` // outcome of using the builder after a failed build
	TmpLeft    []string                       `json:"tmp_left,omitempty"`
	PkgDirs    map[string]map[string]fsx.Node `json:"-"`
}

func diagOut(d sourcebundle.Diagnostic) DiagOut {
	o := DiagOut{Sev: string(rune(d.Severity())), Summary: d.Description().Summary, Detail: d.Description().Detail}
	s := d.Source()
	if s.Subject != nil {
		o.Subject = s.Subject.Filename
		o.Ranges += fmt.Sprintf("S%v-%v", s.Subject.Start, s.Subject.End)
	}
	if s.Context != nil {
		o.Context = s.Context.Filename
		o.Ranges += fmt.Sprintf("C%v-%v", s.Context.Start, s.Context.End)
	}
	if e := d.ExtraInfo(); e != nil {
		o.Extra = fmt.Sprint(e)
	}
	return o
}

func maskTmp(s string) string {
	// temporary directory names are random; mask them
	for {
		i := strings.Index(s, ".tmp-")
		if i < 0 {
			return s
		}
		j := i + 5
		for j < len(s) && (s[j] >= '0' && s[j] <= '9') {
			j++
		}
		s = s[:i] + ".TMP" + s[j:]
	}
}

func describeBundle(b *sourcebundle.Bundle, root string, probes []string) *BundleOut {
	o := &BundleOut{Meta: map[string]string{}, RegVers: map[string]string{}, RegSrc: map[string]string{}, RegDep: map[string]string{}}
	o.Checksum, _ = b.ChecksumV1()
	for _, p := range b.RemotePackages() {
		o.Packages = append(o.Packages, p.String())
		if m := b.RemotePackageMeta(p); m != nil {
			o.Meta[p.String()] = m.GitCommitID() + "|" + m.GitCommitMessage()
		}
	}
	for _, p := range b.RegistryPackages() {
		o.RegPkgs = append(o.RegPkgs, p.String())
		var vs []string
		for _, v := range b.RegistryPackageVersions(p) {
			vs = append(vs, v.String())
			if src, ok := b.RegistryPackageSourceAddr(p, v); ok {
				o.RegSrc[p.String()+"@"+v.String()] = src.String()
			}
			if d := b.RegistryPackageVersionDeprecation(p, v); d != nil {
				o.RegDep[p.String()+"@"+v.String()] = d.Version + "|" + d.Reason + "|" + d.Link
			}
		}
		o.RegVers[p.String()] = strings.Join(vs, ",")
	}
	mb, _ := os.ReadFile(filepath.Join(root, "terraform-sources.json"))
	o.Manifest = string(mb)
	ents, _ := os.ReadDir(root)
	for _, e := range ents {
		o.Listing = append(o.Listing, e.Name())
	}
	o.TreeCanon = fsx.Canon(fsx.Tree(root), false)
	for _, e := range ents {
		if !e.IsDir() {
			continue
		}
		pd := filepath.Join(root, e.Name())
		for rel, n := range fsx.Tree(pd) {
			pn := PkgNode{Dir: e.Name(), Rel: rel, Type: n.Type, Target: n.Target}
			if n.Type == "link" {
				res, loop := fsx.Resolve(filepath.Join(pd, rel))
				rr, _ := filepath.Rel(pd, res)
				pn.Resolved = rr
				switch fi, err := os.Lstat(res); {
				case loop:
					pn.ResType = "loop"
				case err != nil:
					pn.ResType = "missing"
				case fi.Mode().IsRegular():
					pn.ResType = "file"
				case fi.IsDir():
					pn.ResType = "dir"
				default:
					pn.ResType = "other"
				}
			}
			o.Nodes = append(o.Nodes, pn)
		}
	}
	sort.Slice(o.Nodes, func(i, j int) bool { return o.Nodes[i].Dir+"/"+o.Nodes[i].Rel < o.Nodes[j].Dir+"/"+o.Nodes[j].Rel })
	for _, ps := range probes {
		lo := LookupOut{Probe: ps}
		addr, err := sourceaddrs.ParseFinalSource(ps)
		if err != nil {
			lo.Err = "PROBE-PARSE: " + err.Error()
			o.Lookups = append(o.Lookups, lo)
			continue
		}
		p, err := b.LocalPathForSource(addr)
		if err != nil {
			lo.Err = err.Error()
			o.Lookups = append(o.Lookups, lo)
			continue
		}
		rel, rerr := filepath.Rel(root, p)
		if rerr != nil {
			rel = "UNREL:" + p
		}
		lo.Rel = rel
		if fi, err := os.Stat(p); err == nil {
			lo.Exists = true
			lo.IsDir = fi.IsDir()
			if fi.IsDir() {
				lo.Canon = fsx.Canon(fsx.Tree(p), false)
			} else {
				bb, _ := os.ReadFile(p)
				lo.Canon = string(bb)
			}
		}
		func() {
			defer func() {
				if r := recover(); r != nil {
					lo.Inverse = "PANIC: " + fmt.Sprint(r)
				}
			}()
			if back, err := b.SourceForLocalPath(p); err != nil {
				lo.Inverse = "ERR: " + err.Error()
			} else {
				lo.Inverse = back.String()
			}
		}()
		o.Lookups = append(o.Lookups, lo)
	}
	return o
}

func buildHandler(raw json.RawMessage) (any, error) {
	var arg BuildArg
	if err := json.Unmarshal(raw, &arg); err != nil {
		return nil, err
	}
	return runBuild(arg), nil
}

func recorderTracer(out *BuildOut, mu *sync.Mutex) *sourcebundle.BuildTracer {
	add := func(s string) {
		mu.Lock()
		out.Trace = append(out.Trace, s)
		mu.Unlock()
	}
	return &sourcebundle.BuildTracer{
		RegistryPackageVersionsStart: func(ctx context.Context, p regaddr.ModulePackage) context.Context {
			add("versions-start " + p.String())
			return ctx
		},
		RegistryPackageVersionsSuccess: func(ctx context.Context, p regaddr.ModulePackage, vs versions.List) {
			add("versions-success " + p.String())
		},
		RegistryPackageVersionsFailure: func(ctx context.Context, p regaddr.ModulePackage, err error) {
			add("versions-failure " + p.String())
		},
		RegistryPackageVersionsAlready: func(ctx context.Context, p regaddr.ModulePackage, vs versions.List) {
			add("versions-already " + p.String())
		},
		RegistryPackageSourceStart: func(ctx context.Context, p regaddr.ModulePackage, v versions.Version) context.Context {
			add("source-start " + p.String() + "@" + v.String())
			return ctx
		},
		RegistryPackageSourceSuccess: func(ctx context.Context, p regaddr.ModulePackage, v versions.Version, s sourceaddrs.RemoteSource) {
			add("source-success " + p.String() + "@" + v.String())
		},
		RegistryPackageSourceFailure: func(ctx context.Context, p regaddr.ModulePackage, v versions.Version, err error) {
			add("source-failure " + p.String() + "@" + v.String())
		},
		RegistryPackageSourceAlready: func(ctx context.Context, p regaddr.ModulePackage, v versions.Version, s sourceaddrs.RemoteSource) {
			add("source-already " + p.String() + "@" + v.String())
		},
		RemotePackageDownloadStart: func(ctx context.Context, p sourceaddrs.RemotePackage) context.Context {
			add("download-start " + p.String())
			return ctx
		},
		RemotePackageDownloadSuccess: func(ctx context.Context, p sourceaddrs.RemotePackage) { add("download-success " + p.String()) },
		RemotePackageDownloadFailure: func(ctx context.Context, p sourceaddrs.RemotePackage, err error) {
			add("download-failure " + p.String())
		},
		RemotePackageDownloadAlready: func(ctx context.Context, p sourceaddrs.RemotePackage) { add("download-already " + p.String()) },
		Diagnostics: func(ctx context.Context, diags sourcebundle.Diagnostics) {
			mu.Lock()
			for _, d := range diags {
				out.TraceDiags = append(out.TraceDiags, diagOut(d))
			}
			mu.Unlock()
		},
	}
}

// parsedAdd is an Add call with its address already parsed (so that the call
// itself is the only thing a scheduled thread executes).
type parsedAdd struct {
	kind    string
	remote  sourceaddrs.RemoteSource
	reg     sourceaddrs.RegistrySource
	final   sourceaddrs.RegistrySourceFinal
	allowed versions.Set
	finder  string
}

func parseAdd(a AddCall) parsedAdd {
	p := parsedAdd{kind: a.Kind, finder: a.Finder}
	var err error
	switch a.Kind {
	case "remote":
		p.remote, err = sourceaddrs.ParseRemoteSource(a.Addr)
	case "registry":
		p.reg, err = sourceaddrs.ParseRegistrySource(a.Addr)
		p.allowed = ParseAllowed(a.Allowed)
	case "final":
		p.final, err = sourceaddrs.ParseFinalRegistrySource(a.Addr)
	}
	if err != nil {
		panic("INTERNAL: bad add address " + a.Addr + ": " + err.Error())
	}
	return p
}

func doAdd(ctx context.Context, b *sourcebundle.Builder, a AddCall, mkFinder func(id string) sourcebundle.DependencyFinder) AddOut {
	return doParsedAdd(ctx, b, parseAdd(a), mkFinder(a.Finder))
}

func doParsedAdd(ctx context.Context, b *sourcebundle.Builder, a parsedAdd, finder sourcebundle.DependencyFinder) (ao AddOut) {
	defer func() {
		if r := recover(); r != nil {
			ao.Panic = fmt.Sprint(r)
		}
	}()
	var diags sourcebundle.Diagnostics
	switch a.kind {
	case "remote":
		diags = b.AddRemoteSource(ctx, a.remote, finder)
	case "registry":
		diags = b.AddRegistrySource(ctx, a.reg, a.allowed, finder)
	case "final":
		diags = b.AddFinalRegistrySource(ctx, a.final, finder)
	}
	for _, d := range diags {
		ao.Diags = append(ao.Diags, diagOut(d))
	}
	ao.HasErrors = diags.HasErrors()
	return
}

func runBuild(arg BuildArg) (out BuildOut) {
	base := core.NewArena()
	defer core.RemoveArena(base)
	around := filepath.Join(base, "around")
	target := filepath.Join(around, "target")
	os.MkdirAll(target, 0755)
	mkfile(filepath.Join(around, "sibling", "canary"), "C", 0644)
	mkfile(filepath.Join(around, "target-evil", "canary"), "C", 0644)
	mkfile(filepath.Join(base, "top-canary"), "C", 0644)
	e := &env{choices: arg.Choices, around: around, forceFind: arg.ForceFind}
	log := &callLog{}
	var mu sync.Mutex
	w := arg.World
	ctx := context.Background()
	if arg.Trace {
		ctx = recorderTracer(&out, &mu).OnContext(ctx)
	}
	if arg.CrashScan {
		n := 0
		e.hook = func(label string) {
			n++
			cp := filepath.Join(base, fmt.Sprintf("crash-%d", n))
			copyTree(target, cp)
			if _, err := sourcebundle.OpenDir(cp); err == nil {
				out.CrashOpens = append(out.CrashOpens, fmt.Sprintf("boundary %d (%s)", n, label))
			}
			os.RemoveAll(cp)
			out.Boundaries = n
		}
	}
	before := fsx.Snapshot(base, target)
	b, err := sourcebundle.NewBuilder(target, wFetcher{&w, e, log}, wRegistry{&w, e, log})
	if err != nil {
		out.SetupErr = err.Error()
		return
	}
	mkFinder := func(id string) sourcebundle.DependencyFinder {
		return newFinder(id, &w, e, log, arg.Flip)
	}
	failed := false
	for ai, a := range arg.Adds {
		e.curAdd = ai
		ao := doAdd(ctx, b, a, mkFinder)
		out.Adds = append(out.Adds, ao)
		if ao.HasErrors || ao.Panic != "" {
			failed = true
			if !arg.PostUse {
				break
			}
		}
	}
	var bundle *sourcebundle.Bundle
	if !failed || arg.PostUse {
		func() {
			defer func() {
				if r := recover(); r != nil {
					out.ClosePanic = fmt.Sprint(r)
				}
			}()
			var cerr error
			bundle, cerr = b.Close()
			if cerr != nil {
				out.CloseErr = cerr.Error()
			}
		}()
	}
	if arg.CrashScan && bundle == nil {
		// after a failed build the directory must still not open
		if _, err := sourcebundle.OpenDir(target); err == nil {
			out.CrashOpens = append(out.CrashOpens, "after failed build")
		}
	}
	out.Calls = log.Calls
	out.Points = e.Points
	out.BadPick = e.BadPick
	out.Outside = fsx.Diff(before, fsx.Snapshot(base, target))
	ents, _ := os.ReadDir(target)
	for _, en := range ents {
		if strings.HasPrefix(en.Name(), ".tmp-") {
			out.TmpLeft = append(out.TmpLeft, en.Name())
		}
	}
	if bundle != nil {
		out.Bundle = describeBundle(bundle, target, arg.Probes)
		fillExpectations(out.Bundle, &w, base)
		if arg.Reopen {
			if b2, err := sourcebundle.OpenDir(target); err != nil {
				out.ReopenErr = err.Error()
			} else {
				out.Reopened = describeBundle(b2, target, arg.Probes)
			}
			var buf strings.Builder
			func() {
				defer func() {
					if r := recover(); r != nil {
						out.ExtractErr = "PANIC: " + fmt.Sprint(r)
					}
				}()
				if err := bundle.WriteArchive(&buf); err != nil {
					out.ExtractErr = "WriteArchive: " + err.Error()
					return
				}
				ex := filepath.Join(base, "extracted")
				os.Mkdir(ex, 0755)
				b3, err := sourcebundle.ExtractArchive(strings.NewReader(buf.String()), ex)
				if err != nil {
					out.ExtractErr = "ExtractArchive: " + err.Error()
					return
				}
				out.Extracted = describeBundle(b3, ex, arg.Probes)
			}()
		}
	}
	sort.Strings(out.TmpLeft)
	return
}

// fillExpectations materialises every scripted package afresh and records what
// each remote probe should find.
func fillExpectations(bo *BundleOut, w *World, base string) {
	dirs := map[string]string{}
	for i, p := range w.Pkgs {
		d := filepath.Join(base, "expect", fmt.Sprint(i))
		os.MkdirAll(d, 0755)
		if err := materialisePkg(p, d); err == nil {
			dirs[p.Addr] = d
		}
	}
	for i := range bo.Lookups {
		lo := &bo.Lookups[i]
		addr, err := sourceaddrs.ParseFinalSource(lo.Probe)
		if err != nil {
			continue
		}
		rs, ok := addr.(sourceaddrs.RemoteSource)
		if !ok {
			continue
		}
		d, ok := dirs[rs.Package().String()]
		if !ok {
			continue
		}
		lo.ExpKnown = true
		p := filepath.Join(d, filepath.FromSlash(rs.SubPath()))
		if fi, err := os.Stat(p); err == nil {
			lo.ExpExists = true
			if fi.IsDir() {
				lo.ExpCanon = fsx.Canon(fsx.Tree(p), false)
			} else {
				b, _ := os.ReadFile(p)
				lo.ExpCanon = string(b)
			}
		}
	}
}

func copyTree(src, dst string) {
	filepath.Walk(src, func(p string, fi os.FileInfo, err error) error {
		if err != nil {
			return nil
		}
		rel, _ := filepath.Rel(src, p)
		t := filepath.Join(dst, rel)
		switch {
		case fi.IsDir():
			os.MkdirAll(t, 0755)
		case fi.Mode()&os.ModeSymlink != 0:
			l, _ := os.Readlink(p)
			os.Symlink(l, t)
		case fi.Mode().IsRegular():
			b, _ := os.ReadFile(p)
			os.WriteFile(t, b, 0644)
		}
		return nil
	})
}

func init() { core.Register("build", buildHandler) }
