//go:build verifsched

package sys

import (
	"context"
	"encoding/json"
	"fmt"
	"os"
	"path/filepath"
	"strings"
	"sync"

	slug "github.com/hashicorp/go-slug"
	"github.com/hashicorp/go-slug/sourcebundle"
	"github.com/hashicorp/go-slug/verifshim/vsync"

	"verif/mc/core"
)

// Engine E3: all interleavings of a few threads at vsync points, explored by a
// stateless DFS over choice vectors with an (iterated) preemption bound.

type schedStats struct {
	Executions  int      `json:"executions"`
	Points      int      `json:"points"`
	MaxPoints   int      `json:"max_points"`
	Outcomes    []string `json:"outcomes"` // distinct observations
	Violations  []string `json:"violations,omitempty"`
	Deadlocks   int      `json:"deadlocks"`
	BoundDone   int      `json:"bound_done"` // -1 = unbounded completed
	Capped      bool     `json:"capped"`
	Internal    string   `json:"internal,omitempty"`
	Preemptions int      `json:"max_preemptions_seen"`
	PointLabels []string `json:"point_labels,omitempty"`
	// distinct orders in which the harness callbacks / calls were observed over all schedules:
	// >1 means the interleavings really differed although the outcome must not
	DistinctTraces int `json:"distinct_traces"`
}

// exploreSchedules runs the DFS. run executes one schedule and returns the
// scheduler result plus a violation description ("" = fine) and an observation.
func exploreSchedules(run func(choices []int) (vsync.Result, string, string), bound int, maxExec int, st *schedStats) {
	seenOut := map[string]bool{}
	labels := map[string]bool{}
	defer func() {
		for l := range labels {
			st.PointLabels = append(st.PointLabels, l)
		}
	}()
	type item struct{ prefix []int }
	stack := []item{{nil}}
	for len(stack) > 0 {
		it := stack[len(stack)-1]
		stack = stack[:len(stack)-1]
		if st.Executions >= maxExec {
			st.Capped = true
			return
		}
		res, viol, obs := run(it.prefix)
		st.Executions++
		st.Points += len(res.Points)
		if len(res.Points) > st.MaxPoints {
			st.MaxPoints = len(res.Points)
		}
		if res.Diverged != "" {
			st.Internal = "replay divergence: " + res.Diverged
			return
		}
		if res.Deadlock {
			st.Deadlocks++
			viol = "DEADLOCK " + viol
		}
		for _, p := range res.Panics {
			viol += " PANIC " + p
		}
		pre := 0
		for _, p := range res.Points {
			if p.Preempt {
				pre++
			}
			labels[p.Label] = true
		}
		if pre > st.Preemptions {
			st.Preemptions = pre
		}
		if !seenOut[obs] {
			seenOut[obs] = true
			st.Outcomes = append(st.Outcomes, obs)
		}
		if viol != "" && len(st.Violations) < 5 {
			var sched []string
			for _, p := range res.Points {
				sched = append(sched, fmt.Sprintf("%s@t%d->t%d", p.Label, p.Thread, p.Enabled[p.Chose]))
			}
			st.Violations = append(st.Violations, fmt.Sprintf("schedule %v [%s]: %s", choicesOf(res.Points), strings.Join(sched, " "), viol))
		}
		cost := 0
		for i := 0; i < len(res.Points); i++ {
			p := res.Points[i]
			if i >= len(it.prefix) {
				for alt := 1; alt < len(p.Enabled); alt++ {
					c := cost
					if len(p.Enabled) > 0 && p.Enabled[0] == p.Thread {
						c++
					}
					if bound >= 0 && c > bound {
						continue
					}
					np := make([]int, i+1)
					for k := 0; k < i; k++ {
						np[k] = res.Points[k].Chose
					}
					np[i] = alt
					stack = append(stack, item{np})
				}
			}
			if p.Preempt {
				cost++
			}
		}
	}
}

// exploreIterative iterates the preemption bound 0,1,2,∞ (CHESS-style) inside
// one execution budget and records the highest bound completed (-1 = all
// interleavings).
func exploreIterative(run func(choices []int) (vsync.Result, string, string), maxExec int, st *schedStats) {
	st.BoundDone = -2 // nothing completed yet
	for _, b := range []int{0, 1, 2, -1} {
		sub := &schedStats{}
		exploreSchedules(run, b, maxExec-st.Executions, sub)
		st.Executions += sub.Executions
		st.Points += sub.Points
		if sub.MaxPoints > st.MaxPoints {
			st.MaxPoints = sub.MaxPoints
		}
		if sub.Preemptions > st.Preemptions {
			st.Preemptions = sub.Preemptions
		}
		st.Deadlocks += sub.Deadlocks
		seen := map[string]bool{}
		for _, o := range st.Outcomes {
			seen[o] = true
		}
		for _, o := range sub.Outcomes {
			if !seen[o] {
				st.Outcomes = append(st.Outcomes, o)
			}
		}
		lab := map[string]bool{}
		for _, l := range st.PointLabels {
			lab[l] = true
		}
		for _, l := range sub.PointLabels {
			if !lab[l] {
				st.PointLabels = append(st.PointLabels, l)
			}
		}
		if len(st.Violations) == 0 {
			st.Violations = sub.Violations
		}
		if sub.Internal != "" {
			st.Internal = sub.Internal
			return
		}
		if sub.Capped {
			st.Capped = true
			return
		}
		st.BoundDone = b
		if len(st.Violations) > 0 {
			return // the first counterexample has the fewest preemptions
		}
	}
}

func choicesOf(ps []vsync.PointRec) []int {
	var c []int
	for _, p := range ps {
		c = append(c, p.Chose)
	}
	// trim trailing zeros
	for len(c) > 0 && c[len(c)-1] == 0 {
		c = c[:len(c)-1]
	}
	return c
}

// ---------------------------------------------------------------------------
// C13: concurrent Add calls on one builder

// Only (when non-nil in an argument) replays exactly one schedule instead of exploring.
type SchedBuildArg struct {
	Only    *[]int    `json:"only,omitempty"`
	World   World     `json:"world"`
	Adds    []AddCall `json:"adds"` // one per thread
	Bound   int       `json:"bound"`
	MaxExec int       `json:"max_exec"`
	Probes  []string  `json:"probes"`
	// FailFetch: the fetch of this package fails, whichever thread asks for it. There is no
	// sequential result to compare with (which call reports the failure depends on the
	// schedule); the invariants are: nothing is created outside the target directory, a call
	// that starts after a failure refuses, and no bundle comes out.
	FailFetch string `json:"fail_fetch,omitempty"`
}

func obsOfBundle(out *BuildOut) string {
	if out.Bundle == nil {
		var e []string
		for _, a := range out.Adds {
			e = append(e, fmt.Sprint(a.HasErrors, a.Panic))
		}
		return "NO-BUNDLE " + strings.Join(e, ",") + out.CloseErr + out.ClosePanic
	}
	b := out.Bundle
	var ls []string
	for _, l := range b.Lookups {
		ls = append(ls, l.Probe+"=>"+l.Rel+"|"+l.Err)
	}
	return strings.Join(b.Listing, ",") + "\n" + b.Checksum + "\n" + b.Manifest + "\n" + strings.Join(ls, "\n")
}

func schedBuildHandler(raw json.RawMessage) (any, error) {
	var arg SchedBuildArg
	if err := json.Unmarshal(raw, &arg); err != nil {
		return nil, err
	}
	// reference: sequential build
	ref := runBuild(BuildArg{World: arg.World, Adds: arg.Adds, Probes: arg.Probes})
	want := obsOfBundle(&ref)
	st := &schedStats{BoundDone: arg.Bound}
	var first string
	traces := map[string]bool{}
	defer func() { st.DistinctTraces = len(traces) }()
	run := func(choices []int) (vsync.Result, string, string) {
		base := core.NewArena()
		defer core.RemoveArena(base)
		target := filepath.Join(base, "around", "target")
		os.MkdirAll(target, 0755)
		e := &env{around: filepath.Join(base, "around"), failFetch: arg.FailFetch}
		e.hook = func(label string) { vsync.Point("cb:" + strings.SplitN(label, " ", 2)[0]) }
		if arg.FailFetch != "" {
			// anything written relative to the working directory or into the default
			// temporary directory lands in two empty directories that are inspected afterwards
			cwd, tmp := filepath.Join(base, "cwd"), filepath.Join(base, "tmp")
			os.MkdirAll(cwd, 0755)
			os.MkdirAll(tmp, 0755)
			old, _ := os.Getwd()
			oldTmp := os.Getenv("TMPDIR")
			os.Chdir(cwd)
			os.Setenv("TMPDIR", tmp)
			defer func() { os.Chdir(old); os.Setenv("TMPDIR", oldTmp) }()
		}
		log := &callLog{}
		w := arg.World
		b, err := sourcebundle.NewBuilder(target, wFetcher{&w, e, log}, wRegistry{&w, e, log})
		if err != nil {
			return vsync.Result{}, "INTERNAL NewBuilder: " + err.Error(), ""
		}
		out := BuildOut{Adds: make([]AddOut, len(arg.Adds))}
		var fns []func()
		for i, a := range arg.Adds {
			i := i
			pa := parseAdd(a) // parsed outside the scheduled region
			finder := newFinder(a.Finder, &w, e, log, false)
			fns = append(fns, func() {
				out.Adds[i] = doParsedAdd(context.Background(), b, pa, finder)
			})
		}
		res := vsync.Run(fns, choices)
		if res.Deadlock {
			return res, "threads blocked forever", "DEADLOCK"
		}
		failed := false
		for _, a := range out.Adds {
			if a.HasErrors || a.Panic != "" {
				failed = true
			}
		}
		if !failed {
			func() {
				defer func() {
					if r := recover(); r != nil {
						out.ClosePanic = fmt.Sprint(r)
					}
				}()
				bundle, cerr := b.Close()
				if cerr != nil {
					out.CloseErr = cerr.Error()
				} else {
					out.Bundle = describeBundle(bundle, target, arg.Probes)
				}
			}()
		}
		if arg.FailFetch != "" {
			viol := ""
			for _, d := range []string{"cwd", "tmp"} {
				if ents, _ := os.ReadDir(filepath.Join(base, d)); len(ents) > 0 {
					var names []string
					for _, en := range ents {
						names = append(names, en.Name())
					}
					viol += fmt.Sprintf("the build wrote outside its target directory: %v appeared in the %s directory; ", names, map[string]string{"cwd": "working", "tmp": "default temporary"}[d])
				}
			}
			nfail, nquiet := 0, 0
			for _, a := range out.Adds {
				switch {
				case a.HasErrors:
					nfail++
				case a.Panic == "":
					nquiet++
				}
			}
			if nfail == 0 {
				viol += "the failing fetch was reported by no Add call; "
			}
			if out.Bundle != nil {
				viol += "a bundle came out of a build in which a fetch failed; "
			}
			traces[strings.Join(log.Calls, "|")] = true
			obs := fmt.Sprintf("failing-fetch: adds reporting the error=%d, adds returning quietly=%d, outside writes=%v", nfail, nquiet, viol != "")
			if first == "" {
				first = obs
			}
			return res, viol, obs
		}
		obs := obsOfBundle(&out)
		// each remote package must have been fetched exactly once whatever the interleaving
		counts := map[string]int{}
		for _, c := range log.Calls {
			counts[c]++
		}
		traces[strings.Join(log.Calls, "|")] = true
		viol := ""
		for c, n := range counts {
			if strings.HasPrefix(c, "fetch ") && n != 1 {
				viol += fmt.Sprintf("%q happened %d times; ", c, n)
			}
		}
		if obs != want {
			viol += "bundle differs from the sequential build of the same Add calls: got\n" + obs + "\nwant\n" + want
		}
		if first == "" {
			first = obs
		}
		return res, viol, obs
	}
	if arg.Only != nil {
		res, viol, obs := run(*arg.Only)
		st.Executions = 1
		st.Points = len(res.Points)
		st.Outcomes = []string{obs}
		if res.Deadlock {
			viol = "DEADLOCK " + viol
		}
		if viol != "" {
			st.Violations = []string{viol}
		}
		return st, nil
	}
	// determinism: the default schedule twice
	r1, _, o1 := run(nil)
	r2, _, o2 := run(nil)
	if o1 != o2 || len(r1.Points) != len(r2.Points) {
		// same schedule, same inputs, same process, different behaviour: the code keeps
		// process-global state that earlier calls modified. That is itself a violation
		// (output depends on call history) and makes further stateless exploration moot.
		st.Executions = 2
		st.Outcomes = []string{o1, o2}
		st.Violations = []string{fmt.Sprintf("re-executing the default schedule in the same process behaves differently (%d vs %d scheduling points): first\n%s\nsecond\n%s", len(r1.Points), len(r2.Points), o1, o2)}
		return st, nil
	}
	exploreIterative(run, arg.MaxExec, st)
	return st, nil
}

// ---------------------------------------------------------------------------
// C16: concurrent Pack calls

type SchedPackArg struct {
	Only     *[]int     `json:"only,omitempty"`
	Share    bool       `json:"share"`    // all threads use ONE *Packer (options of step 0)
	Steps    []PackStep `json:"steps"`    // one per thread
	Expected []string   `json:"expected"` // solo outputs (from fresh processes)
	Bound    int        `json:"bound"`
	MaxExec  int        `json:"max_exec"`
	PreFail  *PackStep  `json:"pre_fail,omitempty"` // history: this Pack ran first in the process and its writer failed in the middle of a file body
}

func schedPackHandler(raw json.RawMessage) (any, error) {
	var arg SchedPackArg
	if err := json.Unmarshal(raw, &arg); err != nil {
		return nil, err
	}
	st := &schedStats{BoundDone: arg.Bound}
	base := filepath.Join(core.ArenaRoot(), fmt.Sprintf("schedpack-%d-%d", os.Getuid(), os.Getpid()))
	defer core.RemoveArena(base)
	preFail := func() {
		// repeated before every execution: what a failed call leaves behind may be short-lived
		// (a sync.Pool is emptied by the garbage collector)
		if arg.PreFail == nil {
			return
		}
		W := filepath.Join(base, "pre", "W")
		if _, err := os.Stat(W); err != nil {
			os.MkdirAll(W, 0777)
			prepPackStep(W, *arg.PreFail)
		}
		func() {
			defer func() { recover() }()
			newPackerFor(*arg.PreFail).Pack(filepath.Join(W, "src"), &failAfterWriter{n: 60000})
		}()
	}
	run := func(choices []int) (vsync.Result, string, string) {
		outs := make([]string, len(arg.Steps))
		var fns []func()
		var shared *slug.Packer
		if arg.Share {
			shared = newPackerFor(arg.Steps[0])
		}
		for i, stp := range arg.Steps {
			i, stp := i, stp
			W := filepath.Join(base, fmt.Sprintf("t%d", i), "W")
			os.MkdirAll(W, 0777)
			prepPackStep(W, stp)
			fns = append(fns, func() { outs[i] = packWith(shared, W, stp) })
		}
		preFail()
		res := vsync.Run(fns, choices)
		viol := ""
		for i := range outs {
			if !res.Deadlock && outs[i] != arg.Expected[i] {
				viol += fmt.Sprintf("call #%d (%s) gives\n%s\nbut alone it gives\n%s\n", i, arg.Steps[i].Name, outs[i], arg.Expected[i])
			}
		}
		return res, viol, strings.Join(outs, "\n---\n")
	}
	if arg.Only != nil {
		res, viol, obs := run(*arg.Only)
		st.Executions = 1
		st.Points = len(res.Points)
		st.Outcomes = []string{obs}
		if res.Deadlock {
			viol = "DEADLOCK " + viol
		}
		if viol != "" {
			st.Violations = []string{viol}
		}
		return st, nil
	}
	r1, _, o1 := run(nil)
	r2, _, o2 := run(nil)
	if o1 != o2 || len(r1.Points) != len(r2.Points) {
		// same schedule, same inputs, same process, different behaviour: the code keeps
		// process-global state that earlier calls modified. That is itself a violation
		// (output depends on call history) and makes further stateless exploration moot.
		st.Executions = 2
		st.Outcomes = []string{o1, o2}
		st.Violations = []string{fmt.Sprintf("re-executing the default schedule in the same process behaves differently (%d vs %d scheduling points): first\n%s\nsecond\n%s", len(r1.Points), len(r2.Points), o1, o2)}
		return st, nil
	}
	exploreIterative(run, arg.MaxExec, st)
	return st, nil
}

// ---------------------------------------------------------------------------
// free-running bodies for the auxiliary -race pass

type RaceArg struct {
	Share     bool       `json:"share,omitempty"`
	Kind      string     `json:"kind"` // pack | build
	Steps     []PackStep `json:"steps,omitempty"`
	World     World      `json:"world,omitempty"`
	Adds      []AddCall  `json:"adds,omitempty"`
	Iter      int        `json:"iter"`
	FailFetch string     `json:"fail_fetch,omitempty"`
}

func raceHandler(raw json.RawMessage) (any, error) {
	var arg RaceArg
	if err := json.Unmarshal(raw, &arg); err != nil {
		return nil, err
	}
	base := filepath.Join(core.ArenaRoot(), fmt.Sprintf("race-%d", os.Getpid()))
	defer core.RemoveArena(base)
	for it := 0; it < arg.Iter; it++ {
		var wg sync.WaitGroup
		switch arg.Kind {
		case "pack":
			var shared *slug.Packer
			if arg.Share {
				shared = newPackerFor(arg.Steps[0])
			}
			for i, stp := range arg.Steps {
				W := filepath.Join(base, fmt.Sprintf("t%d", i), "W")
				os.MkdirAll(W, 0777)
				prepPackStep(W, stp)
				wg.Add(1)
				go func(W string, stp PackStep) { defer wg.Done(); packWith(shared, W, stp) }(W, stp)
			}
		case "build":
			target := filepath.Join(base, fmt.Sprintf("b%d", it), "target")
			os.MkdirAll(target, 0755)
			e := &env{failFetch: arg.FailFetch}
			log := &callLog{}
			w := arg.World
			b, err := sourcebundle.NewBuilder(target, wFetcher{&w, e, log}, wRegistry{&w, e, log})
			if err != nil {
				return nil, err
			}
			for _, a := range arg.Adds {
				wg.Add(1)
				go func(a AddCall) {
					defer wg.Done()
					defer func() { recover() }() // an Add that finds the builder closed panics by design
					doAdd(context.Background(), b, a, func(id string) sourcebundle.DependencyFinder { return newFinder(id, &w, e, log, false) })
				}(a)
			}
		}
		wg.Wait()
	}
	return map[string]int{"iterations": arg.Iter}, nil
}

func init() {
	writerHook = func() { vsync.Point("writer") }
	core.Register("schedbuild", schedBuildHandler)
	core.Register("schedpack", schedPackHandler)
	core.Register("racebody", raceHandler)
}
