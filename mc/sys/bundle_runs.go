package sys

import (
	"encoding/json"
	"fmt"
	"sort"
	"strings"
	"time"

	"verif/mc/core"
)

// ---------------------------------------------------------------------------
// the world menu

const (
	P1 = "https://example.com/p1.tgz"
	P2 = "git::https://example.com/p2.git?ref=v1"
	P3 = "git::https://example.com/p3.git"
	P4 = "https://example.com/p4.tgz?archive=tgz" // same content class as P1 (coalescing)
	P5 = "git::ssh://example.com/p5.git"          // P1's tree plus one extra file (must not coalesce)
	P6 = "https://example.com/p6.tgz"             // P1's tree with one byte changed in one file
	R1 = "example.com/ns/r1/sys"
	R2 = "registry.terraform.io/ns/r2/sys"
)

// ws prints package address pkg with sub-path sub in canonical form.
func ws(pkg, sub string) string { return mustRemote(pkg).Package().SourceAddr(sub).String() }

func basePkgs() []WPkg {
	return []WPkg{
		{Addr: P1, Locs: []string{"", "m", "m/n"}, MetaID: "1111111111111111111111111111111111111111", MetaMsg: "first commit"},
		{Addr: P2, Locs: []string{"", "m"}, MetaMsg: "a message without a commit id"},
		{Addr: P3, Locs: []string{"", "sub", "sub/m"}, MetaID: "3333333333333333333333333333333333333333"},
		{Addr: P4, Content: P1, Locs: []string{"", "m", "m/n"}, MetaID: "4444444444444444444444444444444444444444", MetaMsg: "same tree, other address"},
		{Addr: P5, Content: P1, Locs: []string{"", "m", "m/n"}, Files: []TNode{{Path: "m/extra", Kind: "file", Body: "x"}}, NilMeta: true},
		{Addr: P6, Content: P1, Locs: []string{"", "m", "m/n"}, Files: []TNode{{Path: "m/marker", Kind: "file", Body: "loc m of " + P1 + "!"}}, NilMeta: true},
	}
}

func baseRegs() []WReg {
	return []WReg{
		{Pkg: R1, Versions: []WVer{{V: "2.0.0", Source: ws(P3, "sub"), Deprecated: true, Reason: "old", Link: "https://example.com/why"}, {V: "1.0.0", Source: "git::https://example.com/p3.git//sub"}, {V: "1.1.0-beta", Source: P2}}},
		{Pkg: R2, Versions: []WVer{{V: "0.9.0+build.5", Source: P1}}}, // build metadata is part of the version's identity
	}
}

func edgeTargets() []WEdge {
	return []WEdge{
		{Kind: "remote", Target: ws(P1, "m"), TFinder: "F1"},
		{Kind: "remote", Target: P2, TFinder: "F2"},
		{Kind: "remote", Target: ws(P3, "sub/m"), TFinder: "F1"},
		{Kind: "remote", Target: P1, TFinder: "F1"},
		{Kind: "remote", Target: ws(P4, "m"), TFinder: "F1"},
		{Kind: "registry", Target: R1, Allowed: "all", TFinder: "F1"},
		{Kind: "registry", Target: R1 + "//m", Allowed: "only:1.0.0", TFinder: "F2"},
		{Kind: "registry", Target: R2, Allowed: "released", TFinder: "F1"},
		{Kind: "registry", Target: R1, Allowed: "ruby:>= 3.0.0", TFinder: "F1"}, // nothing allowed: error
		{Kind: "local", Target: "./n", TFinder: "F1"},
		{Kind: "local", Target: "../", TFinder: "F2"},
		{Kind: "local", Target: "./", TFinder: "F1"}, // self reference
		{Kind: "local", Target: "../../x", TFinder: "F1"},
		{Kind: "local", Target: "../m", TFinder: "F1"},
		{Kind: "remote", Target: P1, TFinder: "G1"},
	}
}

func addMenu() []AddCall {
	return []AddCall{
		{Kind: "remote", Addr: P1, Finder: "F1"},
		{Kind: "remote", Addr: ws(P1, "m"), Finder: "F1"},
		{Kind: "remote", Addr: P2, Finder: "F2"},
		{Kind: "remote", Addr: ws(P3, "sub"), Finder: "F1"},
		{Kind: "registry", Addr: R1, Allowed: "all", Finder: "F1"},
		{Kind: "registry", Addr: R1 + "//m", Allowed: "only:1.0.0", Finder: "F1"},
		{Kind: "final", Addr: R1 + "@1.0.0//m", Finder: "F2"},
		{Kind: "registry", Addr: R2, Allowed: "all", Finder: "F1"},
		{Kind: "remote", Addr: P4, Finder: "F1"},
		{Kind: "remote", Addr: P1, Finder: "F2"},
		{Kind: "remote", Addr: P5, Finder: "F1"},
		{Kind: "remote", Addr: P6, Finder: "F2"},
		{Kind: "remote", Addr: P1, Finder: "G1"},                                  // another finder TYPE that prints like F1
		{Kind: "registry", Addr: R1, Allowed: "only:1.0.0", Finder: "F1"},         // same source and finder as #4, another version
		{Kind: "registry", Addr: R1 + "//m", Allowed: "only:2.0.0", Finder: "F2"}, // a set that skips lower versions it is offered (#14)
	}
}

// edge menu item = (source artifact triple, target)
type edgeKey struct {
	content, loc, finder string
	target               int
}

// candidateEdges: edges whose source is an analysed artifact of the closure.
func candidateEdges(w World, c *RefClosure) []edgeKey {
	var out []edgeKey
	seen := map[string]bool{}
	arts := make([]refArtifact, 0, len(c.Artifacts))
	for a := range c.Artifacts {
		arts = append(arts, a)
	}
	sort.Slice(arts, func(i, j int) bool { return arts[i].Src+arts[i].Finder < arts[j].Src+arts[j].Finder })
	for _, a := range arts {
		src := mustRemote(a.Src)
		p := w.pkg(src.Package().String())
		if p == nil {
			continue
		}
		for ti := range edgeTargets() {
			k := edgeKey{p.content(), src.SubPath(), a.Finder, ti}
			ks := fmt.Sprint(k)
			if !seen[ks] {
				seen[ks] = true
				out = append(out, k)
			}
		}
	}
	return out
}

func (k edgeKey) edge() WEdge {
	e := edgeTargets()[k.target]
	e.Content, e.Loc, e.Finder = k.content, k.loc, k.finder
	return e
}

type scenario struct {
	adds  []AddCall
	edges []edgeKey
}

func (s scenario) world() World {
	w := World{Pkgs: basePkgs(), Regs: baseRegs()}
	for _, k := range s.edges {
		w.Edges = append(w.Edges, k.edge())
	}
	return w
}

func (s scenario) String() string {
	var a, e []string
	for _, x := range s.adds {
		a = append(a, x.String())
	}
	for _, k := range s.edges {
		ed := k.edge()
		e = append(e, fmt.Sprintf("(%s//%s by %s)->%s:%s[%s]/%s", shortAddr(ed.Content), ed.Loc, ed.Finder, ed.Kind, shortAddr(ed.Target), ed.Allowed, ed.TFinder))
	}
	return "adds{" + strings.Join(a, ", ") + "} edges{" + strings.Join(e, ", ") + "}"
}

func shortAddr(s string) string {
	s = strings.ReplaceAll(s, "https://example.com/", "")
	s = strings.ReplaceAll(s, "git::", "")
	return s
}

// enumerateScenarios: all add sequences up to maxAdds × all reachable edge sets up to maxEdges.
func enumerateScenarios(maxAdds, maxEdges int, addIdx []int, deadline time.Time) (out []scenario, capped bool) {
	menu := addMenu()
	var addSeqs [][]AddCall
	var rec func(cur []AddCall)
	rec = func(cur []AddCall) {
		if len(cur) > 0 {
			addSeqs = append(addSeqs, append([]AddCall{}, cur...))
		}
		if len(cur) == maxAdds {
			return
		}
		for _, i := range addIdx {
			rec(append(cur, menu[i]))
		}
	}
	rec(nil)
	for _, adds := range addSeqs {
		seen := map[string]bool{}
		frontier := []scenario{{adds: adds}}
		out = append(out, frontier[0])
		for d := 1; d <= maxEdges; d++ {
			var next []scenario
			for _, sc := range frontier {
				if !deadline.IsZero() && time.Now().After(deadline) {
					return out, true
				}
				c := Closure(sc.world(), sc.adds)
				for _, k := range candidateEdges(sc.world(), c) {
					dup := false
					for _, e := range sc.edges {
						if e == k {
							dup = true
						}
					}
					if dup {
						continue
					}
					ne := append(append([]edgeKey{}, sc.edges...), k)
					sort.Slice(ne, func(i, j int) bool { return fmt.Sprint(ne[i]) < fmt.Sprint(ne[j]) })
					key := fmt.Sprint(ne)
					if seen[key] {
						continue
					}
					seen[key] = true
					ns := scenario{adds: adds, edges: ne}
					next = append(next, ns)
					out = append(out, ns)
				}
			}
			frontier = next
		}
	}
	return out, false
}

// probesFor lists the addresses to look up for a scenario.
func probesFor(c *RefClosure) []string {
	set := map[string]bool{}
	for a := range c.Artifacts {
		set[a.Src] = true
	}
	for _, r := range c.RegReqs {
		set[r.Final] = true
		rs := mustRegistry(r.Src)
		fin := rs.Package().String() + "@" + r.Selected
		if rs.SubPath() != "" {
			fin += "//" + rs.SubPath()
		}
		set[fin] = true
	}
	set["git::https://example.com/not-in-bundle.git//x"] = true
	return sortedKeys(set)
}

// ---------------------------------------------------------------------------
// judges

func judgeC08(sc scenario, c *RefClosure, out BuildOut) (viol [][2]string) {
	bad := func(sig, f string, a ...any) {
		viol = append(viol, [2]string{"sourcebundle.Builder/" + sig, fmt.Sprintf(f, a...)})
	}
	anyErr := false
	for _, a := range out.Adds {
		if a.HasErrors || a.Panic != "" {
			anyErr = true
		}
	}
	if out.CloseErr != "" || out.ClosePanic != "" {
		anyErr = true
	}
	if c.Error != "" {
		return nil // the build is required to fail (C12/C17); nothing to look up
	}
	if anyErr {
		var msgs []string
		for _, a := range out.Adds {
			for _, d := range a.Diags {
				msgs = append(msgs, d.Summary+": "+d.Detail)
			}
			if a.Panic != "" {
				msgs = append(msgs, "panic: "+a.Panic)
			}
		}
		bad("spurious-error", "fault-free build of a well-formed world reports an error: %s %s %s", strings.Join(msgs, " | "), out.CloseErr, out.ClosePanic)
		return
	}
	if out.Bundle == nil {
		bad("no-bundle", "no error but no bundle")
		return
	}
	look := map[string]LookupOut{}
	for _, l := range out.Bundle.Lookups {
		look[l.Probe] = l
	}
	for a := range c.Artifacts {
		l, ok := look[a.Src]
		if !ok {
			continue
		}
		switch {
		case l.Err != "":
			bad("lookup-fails", "source %s (in the closure) cannot be looked up: %s", a.Src, l.Err)
		case strings.HasPrefix(l.Rel, "..") || strings.HasPrefix(l.Rel, "/") || strings.HasPrefix(l.Rel, "UNREL"):
			bad("lookup-outside-bundle", "source %s maps to %s", a.Src, l.Rel)
		case l.ExpKnown && l.ExpExists != l.Exists:
			bad("lookup-existence", "source %s: exists=%v but the fetched package says %v (path %s)", a.Src, l.Exists, l.ExpExists, l.Rel)
		case l.ExpKnown && l.Exists && l.Canon != l.ExpCanon:
			bad("lookup-content", "source %s: content at %s differs from what was fetched:\n got: %s\nwant: %s", a.Src, l.Rel, strings.ReplaceAll(l.Canon, "\n", ","), strings.ReplaceAll(l.ExpCanon, "\n", ","))
		}
	}
	for _, r := range c.RegReqs {
		rs := mustRegistry(r.Src)
		fin := rs.Package().String() + "@" + r.Selected
		if rs.SubPath() != "" {
			fin += "//" + rs.SubPath()
		}
		lr, lf := look[fin], look[r.Final]
		if lr.Err != "" {
			bad("registry-lookup-fails", "registry source %s cannot be looked up: %s", fin, lr.Err)
		} else if lr.Rel != lf.Rel {
			bad("registry-lookup-differs", "registry source %s maps to %s but %s (what the registry named, joined with the caller's sub-path) maps to %s", fin, lr.Rel, r.Final, lf.Rel)
		}
		// registry metadata unchanged
		g := sc.world().reg(r.Pkg)
		for _, v := range g.Versions {
			if mustVersion(v.V) != r.Selected {
				continue
			}
			want := mustRemote(v.Source).String()
			if got := out.Bundle.RegSrc[r.Pkg+"@"+r.Selected]; got != want {
				bad("registry-source-addr", "bundle records source %q for %s@%s, registry said %q", got, r.Pkg, r.Selected, want)
			}
			wantDep := ""
			if v.Deprecated {
				wantDep = r.Selected + "|" + v.Reason + "|" + v.Link
			}
			if got := out.Bundle.RegDep[r.Pkg+"@"+r.Selected]; got != wantDep {
				bad("registry-deprecation", "bundle records deprecation %q for %s@%s, registry said %q", got, r.Pkg, r.Selected, wantDep)
			}
		}
	}
	// fetcher metadata unchanged
	for pa := range c.Packages {
		p := sc.world().pkg(pa)
		want := ""
		if !p.NilMeta && (p.MetaID != "" || p.MetaMsg != "") {
			want = p.MetaID + "|" + p.MetaMsg
		}
		key := mustRemote(pa).Package().String()
		if got := out.Bundle.Meta[key]; got != want {
			bad("package-meta", "bundle meta for %s is %q, fetcher gave %q", pa, got, want)
		}
	}
	// the bundle directory holds the manifest and the package directories it names, nothing else
	{
		var doc struct {
			Packages []struct {
				Local string `json:"local"`
			} `json:"packages"`
		}
		if err := json.Unmarshal([]byte(out.Bundle.Manifest), &doc); err == nil && len(out.Bundle.Listing) > 0 {
			named := map[string]bool{"terraform-sources.json": true}
			for _, p := range doc.Packages {
				named[p.Local] = true
			}
			for _, e := range out.Bundle.Listing {
				if !named[strings.TrimSuffix(e, "/")] {
					bad("stray-entry-in-bundle-directory", "the finished bundle directory contains %q, which the manifest does not name (listing %v)", e, out.Bundle.Listing)
				}
			}
		}
	}
	// foreign probe must fail
	if l, ok := look["git::https://example.com/not-in-bundle.git//x"]; ok && l.Err == "" {
		bad("foreign-lookup-succeeds", "a package that was never added resolves to %s", l.Rel)
	}
	return
}

func judgeC14(sc scenario, c *RefClosure, out BuildOut) (viol [][2]string) {
	bad := func(sig, f string, a ...any) {
		viol = append(viol, [2]string{"sourcebundle.Builder/" + sig, fmt.Sprintf(f, a...)})
	}
	for _, a := range out.Adds {
		if strings.Contains(a.Panic, "CALLBACK-BUDGET") {
			bad("non-termination", "the build exceeded the callback budget: %s", a.Panic)
			return
		}
	}
	if c.Error != "" {
		return nil
	}
	for _, a := range out.Adds {
		if a.HasErrors || a.Panic != "" {
			return nil // judged by C08 (spurious error)
		}
	}
	counts := map[string]int{}
	for _, cl := range out.Calls {
		counts[cl]++
	}
	want := map[string]int{}
	for p := range c.Packages {
		want["fetch "+mustRemote(p).Package().String()] = 1
	}
	for p := range c.RegPkgs {
		want["versions "+p] = 1
	}
	for p := range c.RegSel {
		want["sourceaddr "+p] = 1
	}
	for l, n := range c.FindLines {
		want[l] = n
	}
	for k, n := range want {
		if counts[k] != n {
			bad("call-count", "%q happened %d times, expected %d", k, counts[k], n)
		}
	}
	for k, n := range counts {
		if _, ok := want[k]; !ok {
			bad("unexpected-call", "%q happened %d times but is not in the reference closure", k, n)
		}
	}
	for _, v := range traceBracketing(out.Trace) {
		bad(v[0], "%s", v[1])
	}
	return
}

// traceBracketing checks the shape of a build trace: every start is answered by
// exactly one success or failure, nothing ends that did not start, and "already"
// is only said of work that completed.
func traceBracketing(trace []string) (viol [][2]string) {
	bad := func(sig, f string, a ...any) { viol = append(viol, [2]string{sig, fmt.Sprintf(f, a...)}) }
	// trace bracketing
	open := map[string]bool{}
	done := map[string]bool{}
	for _, ev := range trace {
		sp := strings.SplitN(ev, " ", 2)
		kind, key := sp[0], sp[1]
		fam := kind[:strings.LastIndex(kind, "-")]
		k := fam + " " + key
		switch {
		case strings.HasSuffix(kind, "-start"):
			if open[k] {
				bad("trace-bracketing", "second %s before the first one ended", ev)
			}
			open[k] = true
		case strings.HasSuffix(kind, "-success"), strings.HasSuffix(kind, "-failure"):
			if !open[k] {
				bad("trace-bracketing", "%s without a matching start", ev)
			}
			open[k] = false
			if strings.HasSuffix(kind, "-success") {
				done[k] = true
			}
		case strings.HasSuffix(kind, "-already"):
			if !done[k] {
				bad("trace-already-before-success", "%s although that work never completed", ev)
			}
		}
	}
	for k, o := range open {
		if o {
			bad("trace-bracketing", "start of %s never followed by success or failure", k)
		}
	}
	return
}

// RunBundleWorlds decides C08 or C14.
func RunBundleWorlds(id, tier string) int {
	rep := core.NewReport(id, tier)
	thorough := tier == "thorough"
	deadline := time.Now().Add(100 * time.Second)
	maxAdds, maxEdges := 2, 2
	addIdx := []int{0, 1, 2, 4, 5, 6, 8, 12, 13}
	if thorough {
		deadline = time.Now().Add(25 * time.Minute)
		maxEdges = 3
		addIdx = []int{0, 1, 2, 3, 4, 5, 6, 7, 8, 9, 12, 13}
	}
	genDeadline := time.Now().Add(40 * time.Second)
	if thorough {
		genDeadline = time.Now().Add(8 * time.Minute)
	}
	scs, capped := enumerateScenarios(maxAdds, maxEdges, addIdx, genDeadline)
	if thorough {
		// three Add calls (with repeats) over the smaller add menu, <=2 edges
		more, c2 := enumerateScenarios(3, 2, []int{0, 1, 4, 6, 8}, genDeadline)
		for _, s := range more {
			if len(s.adds) == 3 {
				scs = append(scs, s)
			}
		}
		capped = capped || c2
	}
	if capped {
		rep.Exhaustive = false
	}
	fmt.Printf("  scenarios=%d (adds<=%d, edges<=%d, capped=%v)\n", len(scs), maxAdds, maxEdges, capped)
	pool := core.NewPool(0)
	closures := make([]*RefClosure, len(scs))
	args := make([]BuildArg, len(scs))
	if time.Now().After(deadline) {
		rep.Exhaustive = false
	}
	pool.Map("build", len(scs), func(i int) any {
		c := Closure(scs[i].world(), scs[i].adds)
		closures[i] = c
		args[i] = BuildArg{World: scs[i].world(), Adds: scs[i].adds, Trace: true, Probes: probesFor(c)}
		return args[i]
	}, func(i int, r core.Result) {
		rep.Evaluations++
		desc := scs[i].String()
		if r.Hung || r.Crashed {
			rep.Violation("sourcebundle.Builder/hang-or-crash", desc+" "+firstLines(r.Stderr, 3), "build", args[i])
			return
		}
		var out BuildOut
		core.MustOut(r, &out)
		c := closures[i]
		var viol [][2]string
		if id == "C08" {
			viol = judgeC08(scs[i], c, out)
		} else {
			viol = judgeC14(scs[i], c, out)
		}
		switch {
		case c.Error != "":
			rep.Outcome("world-requires-error")
		case out.Bundle != nil:
			rep.Outcome("built-and-judged")
			if id == "C08" {
				rep.Nontrivial(out.Bundle.Manifest + out.Bundle.TreeCanon)
			} else {
				rep.Nontrivial(strings.Join(out.Calls, "|") + strings.Join(out.Trace, "|"))
			}
		default:
			rep.Outcome("build-failed")
		}
		for _, v := range viol {
			rep.Violation(v[0], desc+" :: "+v[1], "build", args[i])
		}
		if i%997 == 0 {
			rep.Sample(desc + fmt.Sprintf(" => calls=%d packages=%d", len(out.Calls), len(c.Packages)))
		}
	})
	if id == "C14" && !time.Now().After(deadline) {
		// the same worlds with every finder answering with a warning as well: a build with warnings is still
		// fault-free, so nothing about "once" changes (an implementation that only remembers artifacts
		// analysed without any diagnostics repeats them, and never ends on a cycle)
		wargs := make([]BuildArg, len(scs))
		pool.Map("build", len(scs), func(i int) any {
			wargs[i] = args[i]
			wargs[i].ForceFind = 4
			return wargs[i]
		}, func(i int, r core.Result) {
			rep.Evaluations++
			desc := scs[i].String() + " [every finder also returns a warning]"
			if r.Hung || r.Crashed {
				rep.Violation("sourcebundle.Builder/hang-or-crash", desc+" "+firstLines(r.Stderr, 3), "build", wargs[i])
				return
			}
			var out BuildOut
			core.MustOut(r, &out)
			if closures[i].Error == "" && out.Bundle != nil {
				rep.Outcome("built-with-warnings-and-judged")
			}
			for _, v := range judgeC14(scs[i], closures[i], out) {
				rep.Violation(v[0]+"/with-finder-warnings", desc+" :: "+v[1], "build", wargs[i])
			}
		})
		rep.Extra["scenarios_repeated_with_finder_warnings"] = len(scs)
	} else if id == "C14" {
		rep.Exhaustive = false
	}
	rep.States = len(scs)
	rep.Transitions = rep.Evaluations
	rep.Extra["scenarios"] = len(scs)
	rep.Extra["max_adds"] = maxAdds
	rep.Extra["max_edges"] = maxEdges
	rep.Rule = "BFS over (Add-call sequence, dependency edge set): each step adds one edge whose source is an artifact the reference closure already analyses, so every edge is reachable; worlds over 4 packages (one a content-twin), 2 registry packages, 2 finders, 14 edge targets (remote, registry with/without sub-path and allowed sets incl. an unsatisfiable one, local ./n ../ ./ ../../x ../m) incl. self references, cycles and diamonds; every scenario is built by the real Builder with scripted fetcher/registry/finders and a recording tracer and judged against a worklist reference closure. Non-trivial = a bundle was produced; distinct by manifest+tree (C08) / call+trace log (C14)."
	rep.Assumptions = []string{"a non-nil but empty PackageMeta equals nil", "non-termination is detected by a callback budget (3000 calls), not by a timer"}
	return rep.Finish()
}

// ---------------------------------------------------------------------------
// C13 (orders): the bundle is a function of the set of sources added

func permutations(n int) [][]int {
	var out [][]int
	var rec func(cur []int, used []bool)
	rec = func(cur []int, used []bool) {
		if len(cur) == n {
			out = append(out, append([]int{}, cur...))
			return
		}
		for i := 0; i < n; i++ {
			if !used[i] {
				used[i] = true
				rec(append(cur, i), used)
				used[i] = false
			}
		}
	}
	rec(nil, make([]bool, n))
	return out
}

type c13Obs struct {
	listing, manifest, checksum, lookups string
	dirs                                 map[string]string // package -> directory
	fileSets                             map[string]string // package -> canonical file set
	ok                                   bool
	errs                                 string
}

func observeC13(out BuildOut) c13Obs {
	o := c13Obs{dirs: map[string]string{}, fileSets: map[string]string{}}
	for _, a := range out.Adds {
		if a.HasErrors || a.Panic != "" {
			o.errs += fmt.Sprint(a.Diags, a.Panic)
		}
	}
	if out.Bundle == nil {
		o.errs += out.CloseErr + out.ClosePanic
		return o
	}
	o.ok = true
	b := out.Bundle
	o.listing = strings.Join(b.Listing, ",")
	o.manifest = b.Manifest
	o.checksum = b.Checksum
	var ls []string
	for _, l := range b.Lookups {
		ls = append(ls, l.Probe+"=>"+l.Rel+"|"+l.Err)
		if l.Err == "" && l.ExpKnown {
			src := mustRemote(l.Probe)
			if src.SubPath() == "" {
				o.dirs[src.Package().String()] = l.Rel
				o.fileSets[src.Package().String()] = l.ExpCanon
			}
		}
	}
	o.lookups = strings.Join(ls, "\n")
	return o
}

func RunC13(tier string) int {
	rep := core.NewReport("C13", tier)
	thorough := tier == "thorough"
	genDeadline := time.Now().Add(30 * time.Second)
	addIdx := []int{0, 2, 4, 5, 8, 10, 11, 14}
	maxEdges := 1
	if thorough {
		genDeadline = time.Now().Add(5 * time.Minute)
		maxEdges = 2
		addIdx = []int{0, 1, 2, 3, 4, 5, 6, 7, 8, 10, 11, 14}
	}
	// sets of distinct adds (order irrelevant): enumerate sequences with ascending menu indices
	menu := addMenu()
	var addSets [][]AddCall
	maxAdds := 3
	if thorough {
		maxAdds = 4
	}
	var rec func(start int, cur []AddCall)
	rec = func(start int, cur []AddCall) {
		if len(cur) >= 2 {
			addSets = append(addSets, append([]AddCall{}, cur...))
		}
		if len(cur) == maxAdds {
			return
		}
		for k := start; k < len(addIdx); k++ {
			rec(k+1, append(cur, menu[addIdx[k]]))
		}
	}
	rec(0, nil)
	type job struct {
		sc    scenario
		perm  []int
		flip  bool
		group int
	}
	var jobs []job
	groups := 0
	capped := false
	for _, adds := range addSets {
		// reachable edge sets for this add set
		seen := map[string]bool{}
		frontier := []scenario{{adds: adds}}
		all := []scenario{frontier[0]}
		edgeBound := maxEdges
		if len(adds) >= 4 {
			edgeBound = 1 // four Adds have 48 orders each: one edge keeps the tier inside its budget
		}
		for d := 1; d <= edgeBound; d++ {
			var next []scenario
			for _, sc := range frontier {
				if time.Now().After(genDeadline) {
					capped = true
					break
				}
				c := Closure(sc.world(), sc.adds)
				for _, k := range candidateEdges(sc.world(), c) {
					ne := append(append([]edgeKey{}, sc.edges...), k)
					sort.Slice(ne, func(i, j int) bool { return fmt.Sprint(ne[i]) < fmt.Sprint(ne[j]) })
					key := fmt.Sprint(ne)
					dup := false
					for _, e := range sc.edges {
						if e == k {
							dup = true
						}
					}
					if dup || seen[key] {
						continue
					}
					seen[key] = true
					ns := scenario{adds: adds, edges: ne}
					next = append(next, ns)
					all = append(all, ns)
				}
			}
			frontier = next
		}
		for _, sc := range all {
			if Closure(sc.world(), sc.adds).Error != "" {
				continue
			}
			g := groups
			groups++
			for _, p := range permutations(len(sc.adds)) {
				for _, flip := range []bool{false, true} {
					jobs = append(jobs, job{sc, p, flip, g})
				}
			}
		}
	}
	if capped {
		rep.Exhaustive = false
	}
	fmt.Printf("  add sets=%d groups(worlds)=%d builds=%d capped=%v\n", len(addSets), groups, len(jobs), capped)
	pool := core.NewPool(0)
	runDeadline := time.Now().Add(100 * time.Second)
	if thorough {
		runDeadline = time.Now().Add(25 * time.Minute)
	}
	// E4 (map iteration orders) is run on a spread of these worlds afterwards
	var mapArgs []any
	var mapDesc []string
	mapWorlds, mapStride := 250, 1
	if thorough {
		mapWorlds, mapStride = 3000, 7
	}
	if groups > 0 && groups/mapWorlds > mapStride {
		mapStride = groups / mapWorlds
	}
	// Worlds are processed in chunks (whole groups): arguments and observations of a
	// chunk are dropped before the next one starts, so memory stays bounded.
	allJobs := jobs
	groupsDone := 0
	for lo := 0; lo < len(allJobs); {
		if time.Now().After(runDeadline) {
			rep.Exhaustive = false
			break
		}
		hi := lo
		for hi < len(allJobs) && (hi-lo < 40000 || allJobs[hi].group == allJobs[hi-1].group) {
			hi++
		}
		jobs := allJobs[lo:hi]
		groupsDone = allJobs[hi-1].group + 1
		lo = hi
		args := make([]BuildArg, len(jobs))
		obs := make([]c13Obs, len(jobs))
		done := make([]bool, len(jobs))
		pool.Map("build", len(jobs), func(i int) any {
			j := jobs[i]
			adds := make([]AddCall, len(j.perm))
			for k, pi := range j.perm {
				adds[k] = j.sc.adds[pi]
			}
			c := Closure(j.sc.world(), j.sc.adds)
			probes := probesFor(c)
			for p := range c.Packages {
				probes = append(probes, mustRemote(p).Package().String())
			}
			sort.Strings(probes)
			args[i] = BuildArg{World: j.sc.world(), Adds: adds, Flip: j.flip, Probes: probes}
			return args[i]
		}, func(i int, r core.Result) {
			rep.Evaluations++
			if r.Hung || r.Crashed {
				rep.Violation("sourcebundle.Builder/hang-or-crash", jobs[i].sc.String()+" "+firstLines(r.Stderr, 3), "build", args[i])
				return
			}
			var out BuildOut
			core.MustOut(r, &out)
			obs[i] = observeC13(out)
			done[i] = true
		})
		// compare within groups
		first := map[int]int{}
		differing := map[int]bool{}
		for i, j := range jobs {
			if !done[i] {
				continue
			}
			b, ok := first[j.group]
			if !ok {
				first[j.group] = i
				if len(mapArgs) < mapWorlds && (j.group%mapStride == 0) {
					mapArgs = append(mapArgs, args[i])
					mapDesc = append(mapDesc, j.sc.String())
				}
				o := obs[i]
				if !o.ok {
					rep.Violation("sourcebundle.Builder/spurious-error", j.sc.String()+" :: "+o.errs, "build", args[i])
					continue
				}
				// coalescing: same directory iff same file set
				pk := sortedKeys(o.dirs)
				for x := 0; x < len(pk); x++ {
					for y := x + 1; y < len(pk); y++ {
						sameDir := strings.SplitN(o.dirs[pk[x]], "/", 2)[0] == strings.SplitN(o.dirs[pk[y]], "/", 2)[0]
						sameSet := o.fileSets[pk[x]] == o.fileSets[pk[y]]
						if sameDir != sameSet {
							rep.Violation("sourcebundle.Builder/coalescing", fmt.Sprintf("%s :: packages %s and %s: same directory=%v but same files=%v", j.sc, pk[x], pk[y], sameDir, sameSet), "build", args[i])
						}
						if sameSet {
							rep.Outcome("coalesced-pair-seen")
						}
					}
				}
				rep.Nontrivial(o.manifest + o.listing)
				continue
			}
			a, o := obs[b], obs[i]
			var diffs []string
			if a.ok != o.ok {
				diffs = append(diffs, fmt.Sprintf("success %v vs %v (%s)", a.ok, o.ok, o.errs))
			}
			if a.listing != o.listing {
				diffs = append(diffs, "directory listing: "+a.listing+" vs "+o.listing)
			}
			if a.manifest != o.manifest {
				diffs = append(diffs, "manifest bytes differ")
			}
			if a.checksum != o.checksum {
				diffs = append(diffs, "checksum "+a.checksum+" vs "+o.checksum)
			}
			if a.lookups != o.lookups {
				diffs = append(diffs, "lookup table differs")
			}
			if len(diffs) > 0 {
				rep.Violation("sourcebundle.Builder/order-dependence", fmt.Sprintf("%s :: add order %v flip=%v differs from order %v flip=%v: %s", j.sc, j.perm, j.flip, jobs[b].perm, jobs[b].flip, strings.Join(diffs, "; ")), "build", args[i])
			}
			_ = differing
			rep.Outcome("order-compared")
		}
	}
	rep.States = groupsDone
	rep.Transitions = rep.Evaluations
	rep.Extra["worlds"] = groups
	rep.Extra["worlds_completed"] = groupsDone
	rep.Extra["builds"] = rep.Evaluations
	{
		bound := 1
		if thorough {
			bound = 2
		}
		mapOrdBudget = 240 * time.Second
		if thorough {
			mapOrdBudget = 20 * time.Minute
		}
		st := &mapOrdStats{}
		exploreMapOrders(0, "build", mapArgs, bound, func(i int, raw json.RawMessage) string {
			var out BuildOut
			if err := json.Unmarshal(raw, &out); err != nil {
				return "UNPARSABLE " + err.Error()
			}
			o := observeC13(out)
			meta := ""
			if out.Bundle != nil {
				meta = fmt.Sprint(out.Bundle.Meta, out.Bundle.RegSrc, out.Bundle.RegDep, out.Bundle.RegVers, out.Bundle.Packages, out.Bundle.RegPkgs)
			}
			return fmt.Sprintf("ok=%v errs=%s listing=%s checksum=%s lookups=%s meta=%s manifest=%s", o.ok, o.errs, o.listing, o.checksum, o.lookups, meta, o.manifest)
		}, func(i int, choices []int, base, got string, arg MapOrdArg) {
			rep.Violation("sourcebundle.Builder/result-depends-on-map-iteration-order", fmt.Sprintf("%s :: with map orders %v the observable result differs from the canonical order: %s", mapDesc[i], choices, firstDiff(base, got)), "mapord", arg)
		}, st)
		rep.Evaluations += st.Runs
		rep.Extra["map_orders"] = st.summary()
		if st.Capped {
			rep.Exhaustive = false
		}
		fmt.Printf("  map-order part: worlds=%d runs=%d choice points=%d differing=%d\n", st.Tasks, st.Runs, st.Points, st.Differing)
	}
	if sc13 != nil {
		sc13(rep, tier)
	}
	rep.Rule = "for every world (set of 2..3/4 distinct Add calls × reachable edge sets of <=1/2 edges — sets of four Adds: <=1 edge —, error-free by the reference closure): all permutations of the Add calls × both orders of every finder's edge list, each built by the real Builder; observables (top-level listing, manifest bytes, ChecksumV1, lookup table) must equal those of the first order; coalescing: two packages share a directory iff they have the same {file path -> bytes} (content twins, a twin with one extra file, a twin with one changed byte). Map orders (E4): on a spread of these worlds every range-over-map statement the library executes is a choice point; all single (thorough: double) deviations from the canonical order must leave the observables unchanged. Schedules: see sched part. Non-trivial/distinct = distinct manifests."
	return rep.Finish()
}

// sc13 is set by the scheduler part (E3) when built in.
var sc13 func(rep *core.Report, tier string)
