package sys

import (
	"encoding/json"
	"fmt"
	"os"
	"regexp"
	"sort"
	"strconv"
	"strings"
	"time"

	"verif/mc/core"
)

// Master side of engine E3: drives the overlay-built binary (vcheck-sched)
// whose workers explore all interleavings of one scenario per task.

type schedStatsM struct {
	Executions     int      `json:"executions"`
	Points         int      `json:"points"`
	MaxPoints      int      `json:"max_points"`
	Outcomes       []string `json:"outcomes"`
	Violations     []string `json:"violations"`
	Deadlocks      int      `json:"deadlocks"`
	BoundDone      int      `json:"bound_done"`
	Capped         bool     `json:"capped"`
	Internal       string   `json:"internal"`
	Preemptions    int      `json:"max_preemptions_seen"`
	PointLabels    []string `json:"point_labels"`
	DistinctTraces int      `json:"distinct_traces"`
}

var schedRe = regexp.MustCompile(`^schedule \[([0-9 ]*)\]`)

// withOnly returns a copy of a scheduler task argument that replays just the
// schedule named at the start of a violation text.
func withOnly(arg map[string]any, viol string) map[string]any {
	m := schedRe.FindStringSubmatch(viol)
	if m == nil {
		return arg
	}
	only := []int{}
	for _, f := range strings.Fields(m[1]) {
		n, _ := strconv.Atoi(f)
		only = append(only, n)
	}
	c := map[string]any{}
	for k, v := range arg {
		c[k] = v
	}
	c["only"] = only
	return c
}

func schedBin() (string, string) {
	if e := os.Getenv("VERIF_SCHED_ERR"); e != "" {
		return "", e
	}
	b := os.Getenv("VERIF_SCHED_BIN")
	if b == "" {
		return "", "VERIF_SCHED_BIN not set (scheduler binary not built)"
	}
	return b, ""
}

func init() {
	sc13 = runSched13
	sc16 = runSched16
}

func runSched13(rep *core.Report, tier string) {
	bin, why := schedBin()
	if bin == "" {
		fmt.Println("  sched part NOT RUN:", why)
		rep.Exhaustive = false
		rep.Extra["sched_part"] = "not run: " + why
		return
	}
	thorough := tier == "thorough"
	pool := core.NewPool(0)
	pool.Binary = bin
	pool.Timeout = 10 * time.Minute
	menu := addMenu()
	// thread sets: pairs (and triples) of Add calls that share packages / registry entries
	idx := []int{0, 1, 2, 4, 5, 8, 10}
	var sets [][]AddCall
	for a := 0; a < len(idx); a++ {
		for b := a; b < len(idx); b++ {
			sets = append(sets, []AddCall{menu[idx[a]], menu[idx[b]]})
		}
	}
	if thorough {
		for a := 0; a < 4; a++ {
			for b := a; b < 4; b++ {
				for c := b; c < 5; c++ {
					sets = append(sets, []AddCall{menu[idx[a]], menu[idx[b]], menu[idx[c]]})
				}
			}
		}
	}
	type job struct {
		sc scenario
	}
	var jobs []job
	for _, adds := range sets {
		jobs = append(jobs, job{scenario{adds: adds}})
		// with one and two reachable edges
		c := Closure(scenario{adds: adds}.world(), adds)
		cands := candidateEdges(scenario{adds: adds}.world(), c)
		step := 3
		if thorough {
			step = 1
		}
		for k := 0; k < len(cands); k += step {
			sc := scenario{adds: adds, edges: []edgeKey{cands[k]}}
			if Closure(sc.world(), sc.adds).Error == "" {
				jobs = append(jobs, job{sc})
			}
		}
	}
	// one fetch fails while another call is under way
	type failJob struct {
		adds []AddCall
		pkg  string
	}
	var failJobs []failJob
	for _, pr := range [][2]int{{0, 2}, {2, 0}, {0, 1}, {8, 0}, {0, 0}} {
		adds := []AddCall{menu[pr[0]], menu[pr[1]]}
		failJobs = append(failJobs, failJob{adds, mustRemote(menu[pr[0]].Addr).Package().String()})
	}
	for _, fj := range failJobs {
		jobs = append(jobs, job{scenario{adds: fj.adds}})
	}
	failFrom := len(jobs) - len(failJobs)
	maxExec := 3000
	if thorough {
		maxExec = 100000
	}
	args := make([]map[string]any, len(jobs))
	totalExec, totalPoints, capped, maxPre := 0, 0, 0, 0
	labels := map[string]bool{}
	outcomes := 0
	boundHist := map[int]int{} // highest preemption bound completed (-1 = all interleavings) -> scenarios
	traceTotal, multiTrace := 0, 0
	pool.Map("schedbuild", len(jobs), func(i int) any {
		sc := jobs[i].sc
		c := Closure(sc.world(), sc.adds)
		args[i] = map[string]any{"world": sc.world(), "adds": sc.adds, "bound": -1, "max_exec": maxExec, "probes": probesFor(c)}
		if i >= failFrom {
			args[i]["fail_fetch"] = failJobs[i-failFrom].pkg
		}
		return args[i]
	}, func(i int, r core.Result) {
		desc := "concurrent Adds: " + jobs[i].sc.String()
		if i >= failFrom {
			desc += " with the fetch of " + failJobs[i-failFrom].pkg + " failing"
		}
		if r.Hung || r.Crashed || r.Panic != "" {
			rep.Violation("sourcebundle.Builder/concurrent-add/hang-or-crash", desc+" "+firstLines(r.Stderr+r.Panic, 4), "schedbuild", args[i])
			return
		}
		var st schedStatsM
		core.MustOut(r, &st)
		if st.Internal != "" {
			core.Fatalf("scheduler: %s (%s)", st.Internal, desc)
		}
		rep.Evaluations += st.Executions
		totalExec += st.Executions
		totalPoints += st.Points
		outcomes += len(st.Outcomes)
		traceTotal += st.DistinctTraces
		if st.DistinctTraces > 1 {
			multiTrace++
		}
		if st.Capped {
			capped++
		}
		boundHist[st.BoundDone]++
		if st.Preemptions > maxPre {
			maxPre = st.Preemptions
		}
		for _, l := range st.PointLabels {
			labels[l] = true
		}
		for _, o := range st.Outcomes {
			rep.Nontrivial("sched:" + o)
		}
		for _, v := range st.Violations {
			sig := "sourcebundle.Builder/concurrent-add/schedule-dependent-bundle"
			if strings.Contains(v, "DEADLOCK") {
				sig = "sourcebundle.Builder/concurrent-add/deadlock"
			} else if strings.Contains(v, "happened") {
				sig = "sourcebundle.Builder/concurrent-add/duplicate-fetch"
			}
			rep.Violation(sig, desc+" :: "+v, "schedbuild", withOnly(args[i], v))
		}
		if i%17 == 0 {
			rep.Sample(fmt.Sprintf("%s => %d schedules, %d scheduling points, %d distinct outcomes, max %d preemptions", desc, st.Executions, st.Points, len(st.Outcomes), st.Preemptions))
		}
	})
	if capped > 0 {
		rep.Exhaustive = false
	}
	var ls []string
	for l := range labels {
		ls = append(ls, l)
	}
	sort.Strings(ls)
	rep.States += len(jobs)
	rep.Transitions += totalExec
	rep.Extra["sched_part"] = map[string]any{"scenarios": len(jobs), "schedules_explored": totalExec, "scheduling_points": totalPoints, "preemption_bound_completed(-1=all interleavings)->scenarios": fmt.Sprint(boundHist),
		"scenarios_capped": capped, "max_exec_per_scenario": maxExec, "max_preemptions_seen": maxPre, "point_labels": ls, "distinct_outcomes_total": outcomes,
		"distinct_callback_orders_total": traceTotal, "scenarios_where_interleavings_changed_the_callback_order": multiTrace}
	fmt.Printf("  sched part: scenarios=%d schedules=%d points=%d capped=%d max_preemptions=%d labels=%v\n", len(jobs), totalExec, totalPoints, capped, maxPre, ls)
	runRacePass(rep, "build", nil, jobs[len(jobs)/2].sc)
}

func runSched16(rep *core.Report, tier string) map[string]any {
	bin, why := schedBin()
	if bin == "" {
		fmt.Println("  sched part NOT RUN:", why)
		rep.Exhaustive = false
		return map[string]any{"part": "schedules", "not_run": why}
	}
	thorough := tier == "thorough"
	trees := c16Trees()
	ops := []PackStep{
		{Name: "pack(neg,ignore)", Nodes: trees["neg"], Ignore: true},
		{Name: "pack(locked,ignore)", Nodes: trees["locked"], Ignore: true},
		{Name: "pack(rules,ignore)", Nodes: trees["rules"], Ignore: true},
		{Name: "pack(git,ignore)", Nodes: trees["git"], Ignore: true},
		{Name: "legacy(neg)", Nodes: trees["neg"], Legacy: true},
		{Name: "pack(plain)", Nodes: trees["plain"]},
		{Name: "pack(deref)", Nodes: trees["deref"], Ignore: true, Deref: true},
		{Name: "pack(links,allow×3)", Nodes: trees["links"], Allow3: true},
		{Name: "pack(plain+links,allow×3)", Nodes: append(append([]TNode{}, trees["links"]...), TNode{Path: "src/z/l", Kind: "link", Target: "../a"}), Allow3: true},
		// 150 kB of incompressible data each, with a scheduling point at every call of the output
		// writer: the other call can run while this one is in the middle of copying its file
		{Name: "pack(bigA,slow-writer)", Nodes: trees["bigA"], SlowWriter: true},
		{Name: "pack(bigB,slow-writer)", Nodes: trees["bigB"], SlowWriter: true},
	}
	nSmall := len(ops) - 2
	totalExec, totalPoints, scen, capped := 0, 0, 0, 0
	labels := map[string]bool{}
	boundHist := map[int]int{}
	for _, uid := range []int{65534, 0} {
		// solo outputs from fresh processes
		fresh := core.NewPool(uid)
		fresh.Fresh = true
		solo := make([]string, len(ops))
		fresh.Map("packseq", len(ops), func(i int) any { return PackSeqArg{Probes: []PackStep{ops[i]}, UID: uid} }, func(i int, r core.Result) {
			var out PackSeqOut
			core.MustOut(r, &out)
			solo[i] = out.Probes[0]
		})
		var sets [][]int
		for a := 0; a < nSmall; a++ {
			for b := a; b < nSmall; b++ {
				sets = append(sets, []int{a, b})
			}
		}
		sets = append(sets, []int{nSmall, nSmall + 1}) // the two big trees only meet each other
		if thorough {
			for a := 0; a < 4; a++ {
				for b := a; b < 4; b++ {
					for c := b; c < 4; c++ {
						sets = append(sets, []int{a, b, c})
					}
				}
			}
		}
		// the same pairs once more with ONE Packer shared by the threads (only steps with equal options)
		type scenT struct {
			set     []int
			share   bool
			preFail bool // a Pack whose writer failed mid-body ran earlier in the process
		}
		var scens []scenT
		for _, s := range sets {
			scens = append(scens, scenT{s, false, false})
			if s[0] >= nSmall {
				scens = append(scens, scenT{s, false, true})
			}
		}
		sameOpt := func(a, b PackStep) bool {
			return a.Ignore == b.Ignore && a.Deref == b.Deref && a.Allow3 == b.Allow3 && !a.Legacy && !b.Legacy
		}
		for _, s := range sets {
			ok := true
			for _, o := range s[1:] {
				if !sameOpt(ops[s[0]], ops[o]) {
					ok = false
				}
			}
			if ok && len(s) == 2 {
				scens = append(scens, scenT{s, true, false})
				if s[0] >= nSmall {
					scens = append(scens, scenT{s, true, true})
				}
			}
		}
		pool := core.NewPool(uid)
		pool.Binary = bin
		pool.Fresh = true // every scenario starts from a pristine process
		pool.Timeout = 10 * time.Minute
		maxExec := 400
		if thorough {
			maxExec = 60000
		}
		args := make([]map[string]any, len(scens))
		pool.Map("schedpack", len(scens), func(i int) any {
			var steps []PackStep
			var exp []string
			for _, o := range scens[i].set {
				steps = append(steps, ops[o])
				exp = append(exp, solo[o])
			}
			budget := maxExec
			if scens[i].set[0] >= nSmall && budget < 5000 {
				budget = 5000 // many writer points per execution: one preemption must be completed
			}
			args[i] = map[string]any{"steps": steps, "expected": exp, "bound": -1, "max_exec": budget, "uid": uid, "share": scens[i].share}
			if scens[i].preFail {
				args[i]["pre_fail"] = ops[nSmall]
			}
			return args[i]
		}, func(i int, r core.Result) {
			var names []string
			for _, o := range scens[i].set {
				names = append(names, ops[o].Name)
			}
			desc := fmt.Sprintf("uid=%d shared-packer=%v concurrent Packs [%s]", uid, scens[i].share, strings.Join(names, " || "))
			if scens[i].preFail {
				desc += " after a Pack in the same process whose writer failed in the middle of a file"
			}
			if r.Hung || r.Crashed || r.Panic != "" {
				rep.Violation("slug.Pack/concurrent/hang-or-crash", desc+" "+firstLines(r.Stderr+r.Panic, 4), "schedpack", args[i])
				return
			}
			var st schedStatsM
			core.MustOut(r, &st)
			if st.Internal != "" {
				core.Fatalf("scheduler: %s (%s)", st.Internal, desc)
			}
			scen++
			boundHist[st.BoundDone]++
			rep.Evaluations += st.Executions
			totalExec += st.Executions
			totalPoints += st.Points
			if st.Capped {
				capped++
			}
			for _, l := range st.PointLabels {
				labels[l] = true
			}
			for _, o := range st.Outcomes {
				rep.Nontrivial("schedpack:" + o)
			}
			for _, v := range st.Violations {
				rep.Violation("slug.Pack/concurrent/output-depends-on-interleaving", desc+" :: "+v, "schedpack", withOnly(args[i], v))
			}
			if i%9 == 0 {
				rep.Sample(fmt.Sprintf("%s => %d schedules, %d points, %d distinct outcomes", desc, st.Executions, st.Points, len(st.Outcomes)))
			}
		})
	}
	if capped > 0 {
		rep.Exhaustive = false
	}
	var ls []string
	for l := range labels {
		ls = append(ls, l)
	}
	sort.Strings(ls)
	rep.States += scen
	fmt.Printf("  sched part: scenarios=%d schedules=%d points=%d capped=%d labels=%d preemption-bound-completed(-1=all)->scenarios=%v\n", scen, totalExec, totalPoints, capped, len(ls), boundHist)
	runRacePass(rep, "pack", ops, scenario{})
	return map[string]any{"part": "schedules", "scenarios": scen, "schedules_explored": totalExec, "scheduling_points": totalPoints, "scenarios_capped": capped, "point_labels": ls, "preemption_bound_completed(-1=all interleavings)->scenarios": fmt.Sprint(boundHist)}
}

// runRacePass: auxiliary, free-running -race build of the same bodies.
func runRacePass(rep *core.Report, kind string, ops []PackStep, sc scenario) {
	bin := os.Getenv("VERIF_RACE_BIN")
	if bin == "" {
		rep.Extra["race_pass"] = "not run (race binary not built)"
		return
	}
	pool := core.NewPool(0)
	pool.Binary = bin
	pool.N = 4
	pool.Timeout = 5 * time.Minute
	pool.Env = []string{"GORACE=halt_on_error=1 exitcode=66"}
	var args []map[string]any
	if kind == "pack" {
		for a := range ops {
			for b := a; b < len(ops); b++ {
				args = append(args, map[string]any{"kind": "pack", "steps": []PackStep{ops[a], ops[b], ops[a]}, "iter": 30})
				if ops[a].Ignore == ops[b].Ignore && ops[a].Deref == ops[b].Deref && ops[a].Allow3 == ops[b].Allow3 && !ops[a].Legacy && !ops[b].Legacy {
					args = append(args, map[string]any{"kind": "pack", "share": true, "steps": []PackStep{ops[a], ops[b], ops[a]}, "iter": 30})
				}
			}
		}
	} else {
		menu := addMenu()
		for _, set := range [][]int{{0, 0}, {0, 1}, {4, 5}, {0, 8}, {2, 4, 0}} {
			var adds []AddCall
			for _, k := range set {
				adds = append(adds, menu[k])
			}
			s2 := scenario{adds: adds, edges: sc.edges}
			args = append(args, map[string]any{"kind": "build", "world": s2.world(), "adds": adds, "iter": 40})
		}
		// ... and with one package's fetch failing while the other calls run
		for _, set := range [][]int{{0, 2}, {2, 0, 8}} {
			var adds []AddCall
			for _, k := range set {
				adds = append(adds, menu[k])
			}
			s2 := scenario{adds: adds}
			args = append(args, map[string]any{"kind": "build", "world": s2.world(), "adds": adds, "iter": 40, "fail_fetch": mustRemote(menu[set[0]].Addr).Package().String()})
		}
	}
	races := 0
	pool.Map("racebody", len(args), func(i int) any { return args[i] }, func(i int, r core.Result) {
		rep.Evaluations++
		if r.Crashed && strings.Contains(r.Stderr, "DATA RACE") {
			races++
			b, _ := json.Marshal(args[i])
			_ = b
			var frames []string
			for _, l := range strings.Split(r.Stderr, "\n") {
				if strings.Contains(l, "go-slug") && !strings.Contains(l, "verifshim") {
					frames = append(frames, strings.TrimSpace(l))
				}
			}
			if len(frames) > 6 {
				frames = frames[:6]
			}
			rep.Violation("data-race(free-running -race pass)", fmt.Sprintf("%s bodies: race detector report; go-slug frames: %s", kind, strings.Join(frames, " | ")), "racebody", args[i])
		} else if r.Crashed || r.Hung {
			rep.Violation("race-pass/hang-or-crash", kind+" "+firstLines(r.Stderr, 5), "racebody", args[i])
		}
	})
	rep.Extra["race_pass"] = map[string]any{"bodies": len(args), "race_reports": races, "note": "auxiliary free-running -race pass of the same harness bodies (the cooperative scheduler's hand-offs blind the detector)"}
	fmt.Printf("  race pass (%s): bodies=%d race reports=%d\n", kind, len(args), races)
}
