package sys

import (
	"archive/tar"
	"bytes"
	"encoding/json"
	"fmt"
	"os"
	"path/filepath"
	"sort"
	"strings"
	"time"

	slug "github.com/hashicorp/go-slug"

	"verif/mc/core"
	"verif/mc/fsx"
	"verif/mc/ref"
	"verif/mc/tarx"
)

// C15 — Unpack materialises exactly what a well-formed archive says.

type C15Arg struct {
	Entries []tarx.Entry `json:"entries"`
	Format  int          `json:"format"`
	UID     int          `json:"uid,omitempty"`
	Members bool         `json:"members,omitempty"` // the gzip layer has two members, split after the first entry
}

type C15Out struct {
	BuildErr  string   `json:"build_err,omitempty"`
	Err       string   `json:"err,omitempty"`
	Panic     string   `json:"panic,omitempty"`
	Undefined string   `json:"undefined,omitempty"`
	MustFail  string   `json:"must_fail,omitempty"`
	Mismatch  []string `json:"mismatch,omitempty"`
	Canon     string   `json:"canon,omitempty"`
	PaxUsed   bool     `json:"pax_used,omitempty"`
}

func c15Handler(raw json.RawMessage) (any, error) {
	var arg C15Arg
	if err := json.Unmarshal(raw, &arg); err != nil {
		return nil, err
	}
	var out C15Out
	rawTar, err := tarx.Tar(arg.Entries, tar.Format(arg.Format))
	if err != nil {
		out.BuildErr = err.Error()
		return out, nil
	}
	out.PaxUsed = bytes.Contains(rawTar, []byte("PaxHeaders")) || bytes.Contains(rawTar, []byte("pax_global_header"))
	data := tarx.Gzip(rawTar)
	if arg.Members {
		data = tarx.GzipTwoMembers(rawTar)
	}
	dec, err := tarx.Decode(data)
	if err != nil {
		return nil, fmt.Errorf("independent decode failed: %v", err)
	}
	want := ref.Untar(dec)
	out.Undefined, out.MustFail = want.Undefined, want.MustFail

	base := core.NewArena()
	defer core.RemoveArena(base)
	dst := filepath.Join(base, "dst")
	os.Mkdir(dst, 0755)
	func() {
		defer func() {
			if r := recover(); r != nil {
				out.Panic = fmt.Sprint(r)
			}
		}()
		err = slug.Unpack(bytes.NewReader(data), dst)
	}()
	if err != nil {
		out.Err = err.Error()
	}
	if out.Panic != "" {
		return out, nil
	}
	if want.MustFail != "" {
		if err == nil {
			out.Mismatch = append(out.Mismatch, "unpack succeeded although "+want.MustFail)
		}
		return out, nil
	}
	if want.Undefined != "" {
		return out, nil
	}
	if err != nil {
		// Directories get their recorded mode after all entries are extracted, in
		// order of appearance. An unprivileged process therefore cannot finish
		// exactly when a directory entry without owner search permission is FOLLOWED
		// by a directory entry beneath it (whose own restore then fails).
		unsearchable := false
		for i, e := range arg.Entries {
			if e.Kind != "dir" || e.Mode == 0 || e.Mode&0100 != 0 {
				continue
			}
			base := strings.Trim(filepath.ToSlash(filepath.Clean("/"+e.Name)), "/") + "/"
			for _, f := range arg.Entries[i+1:] {
				if f.Kind == "dir" && strings.HasPrefix(strings.Trim(filepath.ToSlash(filepath.Clean("/"+f.Name)), "/")+"/", base) && strings.Trim(filepath.ToSlash(filepath.Clean("/"+f.Name)), "/")+"/" != base {
					unsearchable = true
				}
			}
		}
		if arg.UID != 0 && unsearchable && strings.Contains(err.Error(), "permission denied") {
			// an unprivileged process cannot finish below a directory it was told to make
			// unsearchable/unwritable: failing is the honest answer (no verdict)
			out.Undefined = "environment: permission denied for uid " + fmt.Sprint(arg.UID)
			return out, nil
		}
		out.Mismatch = append(out.Mismatch, "unpack failed on a well-formed archive with a prescribed result: "+err.Error())
		return out, nil
	}
	got := observeTree(dst)
	// unreadable files (mode 0000 as non-root): make readable after recording perms
	for rel, n := range got {
		if n.Type == "file" && n.Sha == "unreadable" {
			p := filepath.Join(dst, rel)
			os.Chmod(p, 0600)
			b, e := os.ReadFile(p)
			if e == nil {
				n.Sha = "body:" + string(b)
				got[rel] = n
			}
		} else if n.Type == "file" {
			b, _ := os.ReadFile(filepath.Join(dst, rel))
			n.Sha = "body:" + string(b)
			got[rel] = n
		}
	}
	var keys []string
	for k := range want.Tree {
		keys = append(keys, k)
	}
	sort.Strings(keys)
	for _, k := range keys {
		w := want.Tree[k]
		g, ok := got[k]
		if !ok {
			out.Mismatch = append(out.Mismatch, fmt.Sprintf("missing %s (%s)", k, w.Type))
			continue
		}
		if g.Type != w.Type {
			out.Mismatch = append(out.Mismatch, fmt.Sprintf("%s: type %s, want %s", k, g.Type, w.Type))
			continue
		}
		switch w.Type {
		case "file":
			if g.Sha != "body:"+w.Body {
				out.Mismatch = append(out.Mismatch, fmt.Sprintf("%s: content %q, want %q", k, g.Sha, w.Body))
			}
		case "link":
			if g.Target != w.Target {
				out.Mismatch = append(out.Mismatch, fmt.Sprintf("%s: target %q, want %q", k, g.Target, w.Target))
			}
		}
		if w.Explicit && w.Type != "link" {
			if g.Perm != w.Perm {
				out.Mismatch = append(out.Mismatch, fmt.Sprintf("%s: perm %04o, want %04o", k, g.Perm, w.Perm))
			}
			if g.MSec != w.MSec || g.MNsec != w.MNsec {
				out.Mismatch = append(out.Mismatch, fmt.Sprintf("%s (%s): mtime %d.%09d, want %d.%09d", k, w.Type, g.MSec, g.MNsec, w.MSec, w.MNsec))
			}
		}
	}
	for k, g := range got {
		if _, ok := want.Tree[k]; !ok {
			out.Mismatch = append(out.Mismatch, fmt.Sprintf("unexpected %s (%s)", k, g.Type))
		}
	}
	sort.Strings(out.Mismatch)
	out.Canon = fsx.Canon(got, true)
	return out, nil
}

// observeTree is fsx.Tree for an unprivileged observer: a directory without
// owner rwx is recorded first and then opened up (chmod changes ctime, not
// mtime or the recorded mode) so that what lies below can be seen.
func observeTree(root string) map[string]fsx.Node {
	out := map[string]fsx.Node{}
	var walk func(dir, rel string)
	walk = func(dir, rel string) {
		ents, err := os.ReadDir(dir)
		if err != nil {
			return
		}
		for _, e := range ents {
			p := filepath.Join(dir, e.Name())
			r := e.Name()
			if rel != "" {
				r = rel + "/" + e.Name()
			}
			one := fsx.Tree1(p)
			out[r] = one
			if one.Type == "dir" {
				if os.Getuid() != 0 && one.Perm&0700 != 0700 {
					os.Chmod(p, 0700)
				}
				walk(p, r)
			}
		}
	}
	walk(root, "")
	return out
}

func init() { core.Register("c15", c15Handler) }

func c15Alphabet(core bool) []tarx.Entry {
	T2 := tarx.BaseTime.Add(36*time.Hour + 500*time.Millisecond).UnixNano()
	var es []tarx.Entry
	regNames := []string{"a", "d/x", "d/e/y", "./a", "/a", "..a", ".../x"}
	dirNames := []string{"d/", "d/e/", "d"}
	if core {
		regNames = []string{"a", "d/x", "/a"}
		dirNames = []string{"d/", "d/e/"}
	}
	for _, n := range regNames {
		es = append(es,
			tarx.Entry{Name: n, Kind: "reg", Body: "c1"},
			tarx.Entry{Name: n, Kind: "reg", Body: "c2-longer"},
			tarx.Entry{Name: n, Kind: "reg", Body: "c1", Mode: 0444},
			tarx.Entry{Name: n, Kind: "reg", Body: "c2-longer", Mode: 0444}, // read-only AND longer than what may overwrite it
			tarx.Entry{Name: n, Kind: "reg", Body: "c1", Mode: -1},
			tarx.Entry{Name: n, Kind: "reg", Body: "c1", MTime: T2},
		)
	}
	for _, n := range dirNames {
		es = append(es,
			tarx.Entry{Name: n, Kind: "dir"},
			tarx.Entry{Name: n, Kind: "dir", Mode: 0555},
			tarx.Entry{Name: n, Kind: "dir", Mode: 0700},
			tarx.Entry{Name: n, Kind: "dir", Mode: 0644}, // no search permission: a non-root Unpack may legitimately fail, but must not "succeed" wrongly
			tarx.Entry{Name: n, Kind: "dir", MTime: T2},
		)
	}
	es = append(es,
		tarx.Entry{Name: "l", Kind: "link", Target: "a"},
		tarx.Entry{Name: "l", Kind: "link", Target: "d/x"},
		tarx.Entry{Name: "d/l", Kind: "link", Target: "../a"},
		tarx.Entry{Name: "d/l", Kind: "link", Target: "x"},
		tarx.Entry{Name: "l", Kind: "link", Target: "./a"},
		tarx.Entry{Name: "d/l", Kind: "link", Target: "e/../x"},
	)
	if !core {
		es = append(es,
			tarx.Entry{Name: "d/e/l", Kind: "link", Target: "../x"},
			tarx.Entry{Name: "l", Kind: "link", Target: "missing"},
		)
	}
	es = append(es,
		tarx.Entry{Name: "h", Kind: "hard", Target: "a"},
		tarx.Entry{Name: "f", Kind: "fifo"},
		tarx.Entry{Name: "pax_global_header", Kind: "xglobal"},
		tarx.Entry{Name: "q/r/pax_global_header", Kind: "xglobal"}, // a global header prescribes nothing, whatever its name
		tarx.Entry{Name: "d/pax_global_header", Kind: "xglobal"},
	)
	if !core {
		es = append(es, tarx.Entry{Name: "c", Kind: "char"}, tarx.Entry{Name: "b", Kind: "block"},
			tarx.Entry{Name: strings.Repeat("n", 120), Kind: "reg", Body: "long"}, // forces a PAX extended / GNU long-name record
		)
	}
	return es
}

func RunC15(tier string) int {
	rep := core.NewReport("C15", tier)
	thorough := tier == "thorough"
	deadline := time.Now().Add(100 * time.Second)
	if thorough {
		deadline = time.Now().Add(25 * time.Minute)
	}
	type plan struct {
		core    bool
		depth   int
		format  int
		uid     int
		members bool
	}
	formats := []int{int(tar.FormatUSTAR), int(tar.FormatPAX), int(tar.FormatGNU)}
	var plans []plan
	for _, uid := range []int{0, 65534} {
		for _, f := range formats {
			if thorough {
				plans = append(plans, plan{false, 3, f, uid, false})
			} else {
				plans = append(plans, plan{false, 2, f, uid, false})
			}
		}
	}
	if !thorough {
		plans = append(plans, plan{true, 3, int(tar.FormatPAX), 65534, false}, plan{true, 3, int(tar.FormatUSTAR), 0, false})
		plans = append(plans, plan{true, 2, int(tar.FormatPAX), 0, true})
	} else {
		plans = append(plans, plan{true, 4, int(tar.FormatPAX), 65534, false}, plan{true, 4, int(tar.FormatPAX), 0, false})
		plans = append(plans, plan{false, 2, int(tar.FormatPAX), 0, true}, plan{true, 3, int(tar.FormatUSTAR), 65534, true})
	}
	pools := map[int]*core.Pool{}
	var planStats []map[string]any
	// archives with at least two directory entries are also run under the map-order engine (E4)
	mapArgs := map[int][]any{}
	mapDesc := map[int][]string{}
	mapCap := 6000
	if thorough {
		mapCap = 60000
	}
	for _, pl := range plans {
		if time.Now().After(deadline) {
			rep.Exhaustive = false
			break
		}
		pool, ok := pools[pl.uid]
		if !ok {
			pool = core.NewPool(pl.uid)
			pools[pl.uid] = pool
		}
		alpha := c15Alphabet(pl.core)
		ops := make([]int, len(alpha))
		for i := range ops {
			ops[i] = i
		}
		st := exploreBFS(ops, pl.depth, false, deadline, func(hists [][]int, handle func(i int, key string, terminal bool)) {
			args := make([]C15Arg, len(hists))
			pool.Map("c15", len(hists), func(i int) any {
				es := make([]tarx.Entry, len(hists[i]))
				for j, o := range hists[i] {
					es[j] = alpha[o]
				}
				args[i] = C15Arg{Entries: es, Format: pl.format, UID: pl.uid, Members: pl.members}
				return args[i]
			}, func(i int, r core.Result) {
				var out C15Out
				core.MustOut(r, &out)
				rep.Evaluations++
				if nd := countKind(args[i].Entries, "dir"); nd >= 2 && len(mapArgs[pl.uid]) < mapCap {
					mapArgs[pl.uid] = append(mapArgs[pl.uid], args[i])
					mapDesc[pl.uid] = append(mapDesc[pl.uid], fmt.Sprintf("format=%v uid=%d archive [%s]", tar.Format(pl.format), pl.uid, tarx.Names(args[i].Entries)))
				}
				desc := fmt.Sprintf("format=%v uid=%d gzip-members=%d archive [%s] err=%q", tar.Format(pl.format), pl.uid, map[bool]int{false: 1, true: 2}[pl.members], tarx.Names(args[i].Entries), out.Err)
				switch {
				case out.BuildErr != "":
					rep.NoVerdict++
					rep.Outcome("tar-writer-refused")
					handle(i, "", true)
					return
				case out.Panic != "":
					rep.Outcome("panic")
					rep.Violation("slug.Unpack/panic", desc+" panic: "+out.Panic, "c15", args[i])
				case out.MustFail != "":
					rep.Outcome("unrepresentable-kind")
				case out.Undefined != "":
					rep.Outcome("undefined-by-property")
				case out.Err != "":
					rep.Outcome("error")
				default:
					rep.Outcome("success-compared")
					rep.Nontrivial(out.Canon)
				}
				if len(out.Mismatch) > 0 {
					sig := "slug.Unpack/differs-from-sequential-reading/" + mismatchClass(out.Mismatch)
					rep.Violation(sig, desc+" mismatches: "+strings.Join(out.Mismatch, "; "), "c15", args[i])
				}
				if len(hists[i]) == 2 && out.Undefined == "" && out.MustFail == "" {
					rep.Sample(desc + " => " + strings.ReplaceAll(out.Canon, "\n", ", "))
				}
				terminal := out.Err != "" || out.Panic != "" || out.Undefined != "" || out.MustFail != ""
				handle(i, "", terminal)
			})
		})
		rep.States += st.States
		rep.Transitions += st.Transitions
		if st.Capped {
			rep.Exhaustive = false
		}
		planStats = append(planStats, map[string]any{"format": fmt.Sprint(tar.Format(pl.format)), "uid": pl.uid, "gzip_members": map[bool]int{false: 1, true: 2}[pl.members], "alphabet": len(alpha), "depth_completed": st.Depth,
			"depth_planned": pl.depth, "states": st.States, "transitions": st.Transitions, "terminal": st.Terminal, "capped": st.Capped})
		fmt.Printf("  plan format=%v uid=%d alphabet=%d depth=%d/%d: transitions=%d terminal=%d capped=%v\n", tar.Format(pl.format), pl.uid, len(alpha), st.Depth, pl.depth, st.Transitions, st.Terminal, st.Capped)
	}
	// long archives: 13-21 directory entries at mixed depths in scrambled orders, one directory recorded
	// twice with different mode and time (anything that re-orders the deferred directory work, e.g. a
	// sort that is only stable for short inputs, needs more entries than the BFS depth reaches)
	if !time.Now().After(deadline) {
		T2 := tarx.BaseTime.Add(36*time.Hour + 500*time.Millisecond).UnixNano()
		var pool24 []string
		for i := 0; i < 8; i++ {
			pool24 = append(pool24, fmt.Sprintf("n%d/", i), fmt.Sprintf("n%d/m/", i), fmt.Sprintf("n%d/m/k/", i))
		}
		var longs []C15Arg
		maxT := 16
		if thorough {
			maxT = 20
		}
		for _, stride := range []int{1, 5, 7, 11} {
			for T := 12; T <= maxT; T++ {
				for i := 0; i < T; i++ {
					for j := i + 1; j <= T; j++ {
						if !thorough && (i+j+stride)%3 != 0 {
							continue
						}
						var es []tarx.Entry
						for k := 0; k < T; k++ {
							e := tarx.Entry{Name: pool24[(k*stride+3)%24], Kind: "dir"}
							if k == i {
								e.Mode, e.MTime = 0700, T2
							}
							es = append(es, e)
						}
						dup := tarx.Entry{Name: es[i].Name, Kind: "dir", Mode: 0750}
						es = append(es[:j], append([]tarx.Entry{dup}, es[j:]...)...)
						longs = append(longs, C15Arg{Entries: es, Format: int(tar.FormatPAX), UID: 0})
					}
				}
			}
		}
		pool, ok := pools[0]
		if !ok {
			pool = core.NewPool(0)
			pools[0] = pool
		}
		okc := 0
		pool.Map("c15", len(longs), func(i int) any { return longs[i] }, func(i int, r core.Result) {
			var out C15Out
			core.MustOut(r, &out)
			rep.Evaluations++
			desc := fmt.Sprintf("format=PAX uid=0 long archive [%s] err=%q", tarx.Names(longs[i].Entries), out.Err)
			switch {
			case out.Panic != "":
				rep.Violation("slug.Unpack/panic", desc+" panic: "+out.Panic, "c15", longs[i])
			case out.BuildErr != "" || out.Undefined != "" || out.MustFail != "":
				rep.NoVerdict++
			case out.Err != "":
				rep.Outcome("long-archive-error") // reported below through Mismatch when the result was prescribed
			default:
				okc++
				rep.Outcome("long-archive-compared")
				rep.Nontrivial(out.Canon)
			}
			if len(out.Mismatch) > 0 {
				rep.Violation("slug.Unpack/differs-from-sequential-reading/"+mismatchClass(out.Mismatch), desc+" mismatches: "+strings.Join(out.Mismatch, "; "), "c15", longs[i])
			}
		})
		rep.States += len(longs)
		rep.Transitions += len(longs)
		rep.Extra["long_archives"] = map[string]any{"archives": len(longs), "compared": okc, "entries": fmt.Sprintf("13-%d", maxT+1)}
		fmt.Printf("  long archives: %d (compared %d)\n", len(longs), okc)
	} else {
		rep.Exhaustive = false
	}
	{
		mapOrdBudget = 240 * time.Second
		if thorough {
			mapOrdBudget = 20 * time.Minute
		}
		st := &mapOrdStats{}
		for _, uid := range []int{0, 65534} {
			uid := uid
			exploreMapOrders(uid, "c15", mapArgs[uid], 1, func(_ int, raw json.RawMessage) string { return canonArena(raw) },
				func(i int, choices []int, base, got string, arg MapOrdArg) {
					rep.Violation("slug.Unpack/result-depends-on-map-iteration-order", fmt.Sprintf("%s :: with map orders %v: %s", mapDesc[uid][i], choices, firstDiff(base, got)), "mapord", arg)
				}, st)
		}
		rep.Evaluations += st.Runs
		rep.Extra["map_orders"] = st.summary()
		if st.Capped {
			rep.Exhaustive = false
		}
		fmt.Printf("  map-order part: archives=%d runs=%d choice points=%d differing=%d\n", st.Tasks, st.Runs, st.Points, st.Differing)
	}
	rep.Extra["plans"] = planStats
	rep.Rule = "BFS (no state merging: the history is the state) over well-formed entry sequences × tar format × uid; each prefix is unpacked by the real code and compared with a sequential reference interpreter " +
		"(ref/untar) fed by an independent archive/tar decode of the same bytes; plus long archives of 13-21 directory entries (mixed depths, four scrambled orders, one directory recorded twice with different mode and time at every pair of positions). Non-trivial = success with a prescribed result; distinct by resulting tree incl. modes and mtimes."
	rep.Assumptions = []string{"type change at one path, an entry below a link, and a link entry at an existing path are not prescribed by the property (only no-crash)", "modes limited to 0000-0777; link timestamps not compared"}
	return rep.Finish()
}

func mismatchClass(ms []string) string {
	set := map[string]bool{}
	for _, m := range ms {
		switch {
		case strings.HasPrefix(m, "missing"):
			set["missing"] = true
		case strings.HasPrefix(m, "unexpected"):
			set["unexpected"] = true
		case strings.HasPrefix(m, "unpack failed"):
			set["unexpected-failure"] = true
		case strings.HasPrefix(m, "unpack succeeded"):
			set["unrepresentable-kind-accepted"] = true
		case strings.Contains(m, ": perm"):
			set["perm"] = true
		case strings.Contains(m, "mtime"):
			if strings.Contains(m, "(dir)") {
				set["dir-mtime"] = true
			} else {
				set["file-mtime"] = true
			}
		case strings.Contains(m, ": content"):
			set["content"] = true
		case strings.Contains(m, ": target"):
			set["target"] = true
		case strings.Contains(m, ": type"):
			set["type"] = true
		}
	}
	var ks []string
	for k := range set {
		ks = append(ks, k)
	}
	sort.Strings(ks)
	return strings.Join(ks, "+")
}

func countKind(es []tarx.Entry, kind string) int {
	n := 0
	for _, e := range es {
		if e.Kind == kind {
			n++
		}
	}
	return n
}
