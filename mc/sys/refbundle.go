package sys

import (
	"fmt"
	"path"
	"sort"
	"strings"

	"github.com/apparentlymart/go-versions/versions"
	"github.com/hashicorp/go-slug/sourceaddrs"
)

// Reference closure of a scripted world: a plain worklist, no queues, no caches.

type refArtifact struct {
	Src    string // remote source address (printed)
	Finder string
}

type refRegReq struct {
	Src      string // registry source (printed, with sub-path)
	Pkg      string
	Selected string
	Final    string // remote source the request resolves to
}

type RefClosure struct {
	Error      string // non-empty: a fault-free build must still report an error
	Artifacts  map[refArtifact]bool
	Packages   map[string]bool // remote packages fetched
	RegPkgs    map[string]bool // version lists requested
	RegSel     map[string]bool // pkg@version source addresses requested
	RegReqs    []refRegReq
	FindLines  map[string]int // expected "find <content>//<loc> by <finder>" log lines
	ExpectedOK bool
}

// SelectVersion is the brute-force maximum over offered ∧ allowed.
// RefAllowed: membership in the caller's allowed set. A finite set (an exact version, a selection, the set
// built for an already-versioned address) contains what it lists; go-versions' Set.Has answers false for
// 0.0.0 in every set but All, even in Only(0.0.0), so the listing is consulted for finite sets.
func RefAllowed(allowed versions.Set, v versions.Version) bool {
	if allowed.IsFinite() {
		for _, l := range allowed.List() {
			if l == v {
				return true
			}
		}
		return false
	}
	return allowed.Has(v)
}

func SelectVersion(offered []WVer, allowed versions.Set) (WVer, bool) {
	var best WVer
	var bestV versions.Version
	found := false
	for _, o := range offered {
		v := versions.MustParseVersion(o.V)
		if !RefAllowed(allowed, v) {
			continue
		}
		if !found || bestV.LessThan(v) {
			best, bestV, found = o, v, true
		}
	}
	return best, found
}

func joinSub(a, b string) string {
	switch {
	case a == "":
		return b
	case b == "":
		return a
	}
	return a + "/" + b
}

// resolveRegistry gives the remote source a registry request ends at.
func (w World) resolveRegistry(regSrc sourceaddrs.RegistrySource, allowed versions.Set) (refRegReq, string) {
	pkg := regSrc.Package().String()
	g := w.reg(pkg)
	if g == nil {
		return refRegReq{}, "registry has no package " + pkg
	}
	sel, ok := SelectVersion(g.Versions, allowed)
	if !ok {
		return refRegReq{}, "no offered version of " + pkg + " is allowed"
	}
	real, err := sourceaddrs.ParseRemoteSource(sel.Source)
	if err != nil {
		return refRegReq{}, "bad registry source " + sel.Source
	}
	final := real.Package().SourceAddr(joinSub(real.SubPath(), regSrc.SubPath()))
	return refRegReq{Src: regSrc.String(), Pkg: pkg, Selected: versions.MustParseVersion(sel.V).String(), Final: final.String()}, ""
}

func applyLocal(sub, rel string) (string, bool) {
	var segs []string
	if sub != "" {
		segs = strings.Split(sub, "/")
	}
	out, ok := stackResolve(segs, rel)
	return strings.Join(out, "/"), ok
}

func Closure(w World, adds []AddCall) *RefClosure {
	c := &RefClosure{Artifacts: map[refArtifact]bool{}, Packages: map[string]bool{}, RegPkgs: map[string]bool{}, RegSel: map[string]bool{}, FindLines: map[string]int{}}
	var work []refArtifact
	fail := func(s string) {
		if c.Error == "" {
			c.Error = s
		}
	}
	pushRemote := func(src sourceaddrs.RemoteSource, finder string) {
		work = append(work, refArtifact{src.String(), finder})
	}
	pushRegistry := func(src sourceaddrs.RegistrySource, allowed versions.Set, finder string) {
		c.RegPkgs[src.Package().String()] = true
		req, e := w.resolveRegistry(src, allowed)
		if e != "" {
			fail(e)
			return
		}
		c.RegSel[req.Pkg+"@"+req.Selected] = true
		c.RegReqs = append(c.RegReqs, req)
		pushRemote(mustRemote(req.Final), finder)
	}
	for _, a := range adds {
		switch a.Kind {
		case "remote":
			pushRemote(mustRemote(a.Addr), a.Finder)
		case "registry":
			pushRegistry(mustRegistry(a.Addr), ParseAllowed(a.Allowed), a.Finder)
		case "final":
			s, err := sourceaddrs.ParseFinalRegistrySource(a.Addr)
			if err != nil {
				panic("INTERNAL: bad final address " + a.Addr + ": " + err.Error())
			}
			pushRegistry(s.Unversioned(), versions.Only(s.SelectedVersion()), a.Finder)
		}
	}
	for len(work) > 0 {
		art := work[0]
		work = work[1:]
		if c.Artifacts[art] {
			continue
		}
		c.Artifacts[art] = true
		src, err := sourceaddrs.ParseRemoteSource(art.Src)
		if err != nil {
			fail("INTERNAL closure parse " + art.Src)
			continue
		}
		pkgAddr := src.Package().String()
		p := w.pkg(pkgAddr)
		if p == nil {
			fail("world has no package " + pkgAddr)
			continue
		}
		c.Packages[pkgAddr] = true
		c.FindLines[fmt.Sprintf("find %s//%s by %s", p.content(), src.SubPath(), art.Finder)]++
		for _, e := range w.Edges {
			if e.Content != p.content() || e.Loc != src.SubPath() || e.Finder != art.Finder {
				continue
			}
			switch e.Kind {
			case "remote":
				pushRemote(mustRemote(e.Target), e.TFinder)
			case "registry":
				pushRegistry(mustRegistry(e.Target), ParseAllowed(e.Allowed), e.TFinder)
			case "local":
				l, _ := sourceaddrs.ParseLocalSource(e.Target)
				ns, ok := applyLocal(src.SubPath(), l.RelativePath())
				if !ok {
					fail("local dependency " + e.Target + " of " + art.Src + " climbs out of its package")
					continue
				}
				pushRemote(src.Package().SourceAddr(ns), e.TFinder)
			}
		}
	}
	c.ExpectedOK = c.Error == ""
	return c
}

// pkgHasPath tells whether the scripted package contains sub-path p.
func (p WPkg) hasPath(sp string) bool {
	if sp == "" {
		return true
	}
	for _, l := range p.Locs {
		if l == sp || strings.HasPrefix(l, sp+"/") {
			return true
		}
	}
	if sp == ".pkgid" || sp == "marker-root" {
		return true
	}
	for _, l := range p.Locs {
		if l != "" && sp == l+"/marker" {
			return true
		}
	}
	for _, f := range p.Files {
		if f.Path == sp || strings.HasPrefix(f.Path, sp+"/") {
			return true
		}
	}
	return false
}

func sortedKeys[V any](m map[string]V) []string {
	var ks []string
	for k := range m {
		ks = append(ks, k)
	}
	sort.Strings(ks)
	return ks
}

var _ = path.Join

func mustRemote(s string) sourceaddrs.RemoteSource {
	r, err := sourceaddrs.ParseRemoteSource(s)
	if err != nil {
		panic("INTERNAL: mustRemote " + s + ": " + err.Error())
	}
	return r
}

func mustRegistry(s string) sourceaddrs.RegistrySource {
	r, err := sourceaddrs.ParseRegistrySource(s)
	if err != nil {
		panic("INTERNAL: mustRegistry " + s + ": " + err.Error())
	}
	return r
}

func mustVersion(s string) string { return versions.MustParseVersion(s).String() }
