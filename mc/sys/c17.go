package sys

import (
	"fmt"
	"sort"
	"strings"
	"time"

	"github.com/apparentlymart/go-versions/versions"

	"verif/mc/core"
)

// C17 — registry sources resolve to the newest allowed version.

var c17Universe = []string{"0.0.0-beta1", "0.0.0", "0.9.0", "1.0.0", "1.0.20240115", "1.1.0-beta", "1.1.0", "2.0.0-rc1", "2.0.0"} // incl. a date-stamped patch number (> 2^21)

const c17Pkg = "example.com/ns/vers/sys"

func c17Source(i int) string { return fmt.Sprintf("https://example.com/v%d.tgz", i) }

func RunC17(tier string) int {
	rep := core.NewReport("C17", tier)
	thorough := tier == "thorough"
	maxOffered := 2
	if thorough {
		maxOffered = 3
	}
	// ordered subsets
	var lists [][]int
	var rec func(cur []int)
	rec = func(cur []int) {
		lists = append(lists, append([]int{}, cur...))
		if len(cur) == maxOffered {
			return
		}
		for i := range c17Universe {
			used := false
			for _, c := range cur {
				if c == i {
					used = true
				}
			}
			if !used {
				rec(append(cur, i))
			}
		}
	}
	rec(nil)
	allowedSpecs := []string{"all", "released", "ruby:>= 1.0.0, < 2.0.0", "ruby:~> 1.0", "sel:0.9.0,2.0.0", "ruby:>= 3.0.0"}
	for _, v := range c17Universe {
		allowedSpecs = append(allowedSpecs, "only:"+v)
	}
	var singles []AddCall
	for _, a := range allowedSpecs {
		singles = append(singles, AddCall{Kind: "registry", Addr: c17Pkg, Allowed: a, Finder: "F1"})
	}
	for _, v := range c17Universe {
		singles = append(singles, AddCall{Kind: "final", Addr: c17Pkg + "@" + v, Finder: "F1"})
	}
	singles = append(singles, AddCall{Kind: "registry", Addr: c17Pkg + "//m", Allowed: "all", Finder: "F2"})
	var hists [][]AddCall
	for _, a := range singles {
		hists = append(hists, []AddCall{a})
	}
	second := singles
	if !thorough {
		second = []AddCall{singles[0], singles[1], singles[2], singles[7], singles[len(allowedSpecs)], singles[len(allowedSpecs)+3], singles[len(singles)-1]}
	}
	for _, a := range singles {
		for _, b := range second {
			hists = append(hists, []AddCall{a, b})
		}
	}
	type job struct {
		list []int
		dep  int // index in list that is deprecated (-1 none)
		hist []AddCall
	}
	var jobs []job
	for _, l := range lists {
		deps := []int{-1}
		if thorough || len(l) <= 1 {
			for i := range l {
				deps = append(deps, i)
			}
		} else if len(l) > 0 {
			deps = append(deps, len(l)-1)
		}
		for _, d := range deps {
			for _, h := range hists {
				jobs = append(jobs, job{l, d, h})
			}
		}
	}
	if !thorough {
		// quick: listings of three versions in every order, single requests only
		// (a wrong ordering of the candidates needs at least three to show)
		var triples [][]int
		n := len(c17Universe)
		for a := 0; a < n; a++ {
			for b := 0; b < n; b++ {
				for c := 0; c < n; c++ {
					if a != b && b != c && a != c {
						triples = append(triples, []int{a, b, c})
					}
				}
			}
		}
		for _, l := range triples {
			for _, a := range singles {
				jobs = append(jobs, job{l, -1, []AddCall{a}})
			}
			jobs = append(jobs, job{l, 1, []AddCall{singles[0]}})
		}
		lists = append(lists, triples...)
	}
	mkWorld := func(j job) World {
		w := World{}
		for i := range c17Universe {
			w.Pkgs = append(w.Pkgs, WPkg{Addr: c17Source(i), Locs: []string{"", "m"}, NilMeta: true})
		}
		g := WReg{Pkg: c17Pkg}
		for k, vi := range j.list {
			v := WVer{V: c17Universe[vi], Source: c17Source(vi)}
			if k == j.dep {
				v.Deprecated, v.Reason, v.Link = true, "deprecated "+c17Universe[vi], "https://example.com/d/"+c17Universe[vi]
			}
			g.Versions = append(g.Versions, v)
		}
		w.Regs = []WReg{g}
		return w
	}
	fmt.Printf("  offered lists=%d histories=%d builds=%d\n", len(lists), len(hists), len(jobs))
	pool := core.NewPool(0)
	args := make([]BuildArg, len(jobs))
	deadline := time.Now().Add(25 * time.Minute)
	_ = deadline
	pool.Map("build", len(jobs), func(i int) any {
		args[i] = BuildArg{World: mkWorld(jobs[i]), Adds: jobs[i].hist, Trace: true, PostUse: false}
		return args[i]
	}, func(i int, r core.Result) {
		rep.Evaluations++
		j := jobs[i]
		w := args[i].World
		var offered []string
		for k, v := range w.Regs[0].Versions {
			s := v.V
			if k == j.dep {
				s += "(deprecated)"
			}
			offered = append(offered, s)
		}
		var hs []string
		for _, a := range j.hist {
			hs = append(hs, a.String())
		}
		desc := fmt.Sprintf("registry offers [%s]; history [%s]", strings.Join(offered, ", "), strings.Join(hs, " ; "))
		if r.Hung || r.Crashed {
			rep.Violation("sourcebundle.Builder/hang-or-crash", desc, "build", args[i])
			return
		}
		var out BuildOut
		core.MustOut(r, &out)
		bad := func(sig, f string, a ...any) {
			rep.Violation("sourcebundle.Builder/"+sig, desc+" :: "+fmt.Sprintf(f, a...), "build", args[i])
		}
		// reference
		selected := map[string]WVer{}
		var firstErr = -1
		for k, a := range j.hist {
			var set versions.Set
			if a.Kind == "final" {
				set = versions.Only(versions.MustParseVersion(strings.TrimPrefix(a.Addr, c17Pkg+"@")))
			} else {
				set = ParseAllowed(a.Allowed)
			}
			sel, ok := SelectVersion(w.Regs[0].Versions, set)
			if !ok {
				firstErr = k
				break
			}
			selected[versions.MustParseVersion(sel.V).String()] = sel
		}
		if firstErr >= 0 {
			rep.Outcome("no-allowed-version")
			if len(out.Adds) <= firstErr || !out.Adds[firstErr].HasErrors {
				bad("no-allowed-version-not-reported", "Add #%d has no offered∧allowed version but reported no error", firstErr)
			}
			if out.Bundle != nil {
				bad("bundle-after-error", "a bundle came out of a build with an unresolvable registry source")
			}
			for k := 0; k < firstErr && k < len(out.Adds); k++ {
				if out.Adds[k].HasErrors {
					bad("spurious-error", "Add #%d reported an error although a version is allowed", k)
				}
			}
			return
		}
		for k, a := range out.Adds {
			if a.HasErrors || a.Panic != "" {
				bad("spurious-error", "Add #%d reported an error although a version is allowed: %v %s", k, a.Diags, a.Panic)
				return
			}
		}
		if out.Bundle == nil {
			bad("no-bundle", "no bundle: %s %s", out.CloseErr, out.ClosePanic)
			return
		}
		rep.Outcome("resolved-and-judged")
		var wantVers []versions.Version
		for v := range selected {
			wantVers = append(wantVers, versions.MustParseVersion(v))
		}
		sort.Slice(wantVers, func(a, b int) bool { return wantVers[a].LessThan(wantVers[b]) })
		var wv []string
		for _, v := range wantVers {
			wv = append(wv, v.String())
		}
		got := out.Bundle.RegVers[c17Pkg]
		rep.Nontrivial(strings.Join(offered, ",") + "=>" + got)
		if got != strings.Join(wv, ",") {
			bad("wrong-version-selected", "bundle holds versions [%s], brute-force maximum over offered∧allowed gives [%s]", got, strings.Join(wv, ","))
		}
		for v, sel := range selected {
			if g := out.Bundle.RegSrc[c17Pkg+"@"+v]; g != sel.Source {
				bad("wrong-source-addr", "version %s: bundle records %q, registry said %q", v, g, sel.Source)
			}
			wantDep := ""
			if sel.Deprecated {
				wantDep = v + "|" + sel.Reason + "|" + sel.Link
			}
			if g := out.Bundle.RegDep[c17Pkg+"@"+v]; g != wantDep {
				bad("wrong-deprecation", "version %s: bundle records deprecation %q, registry attached %q", v, g, wantDep)
			}
		}
		counts := map[string]int{}
		for _, c := range out.Calls {
			counts[c]++
		}
		if counts["versions "+c17Pkg] != 1 {
			bad("versions-requested-more-than-once", "version list requested %d times", counts["versions "+c17Pkg])
		}
		for v := range selected {
			if n := counts["sourceaddr "+c17Pkg+"@"+v]; n != 1 {
				bad("source-addr-request-count", "source address of %s requested %d times", v, n)
			}
		}
		if i%2003 == 0 {
			rep.Sample(desc + " => bundle versions " + got)
		}
	})
	twinBuilds := c17Twins(rep, thorough)
	rep.States = len(jobs) + twinBuilds
	rep.Transitions = rep.Evaluations
	rep.Extra["twin_builds"] = twinBuilds
	rep.Extra["offered_lists"] = len(lists)
	rep.Extra["histories"] = len(hists)
	rep.Rule = fmt.Sprintf("every ordered list of <=%d versions from {0.9.0,1.0.0,1.1.0-beta,1.1.0,2.0.0-rc1,2.0.0} offered by the registry (each distinct order is a distinct registry answer), optionally one deprecated, × histories of 1-2 Add calls on the same package (registry with 12 allowed sets incl. pessimistic, range, exact, disjoint selection, unsatisfiable; already-versioned final sources; with sub-path); oracle: brute-force maximum over offered∧Has; error and no bundle when empty; recorded source address and deprecation are those of the selected version; one versions request per package. Distinct = (offered list, selected set).", maxOffered)
	rep.Rule += " Twin part: listings of 2-3 versions from {0.9.0, 1.0.0, 1.0.0+a, 1.0.0+b, 1.1.0} holding at least two of equal precedence (they differ in build metadata only), any one deprecated; requests all / only:1.0.0 / ~> 1.0 / already-versioned @1.0.0, @1.0.0+a, @1.0.0+b (pairs of them in the thorough tier); any of the equal-precedence maxima may be selected, but the source address and the deprecation note recorded for the selected version string must be the ones the registry attached to exactly that string."
	rep.Assumptions = []string{"among offered versions of equal precedence (build metadata twins) any one may be selected; an already-versioned source may resolve to a twin of the version it names", "Set.Has (for infinite sets; a finite set contains what it lists) and Version.LessThan of go-versions are trusted"}
	return rep.Finish()
}

// c17Twins: listings that hold versions of equal precedence (differing in build
// metadata only). Which twin is selected is left open; what is recorded for the
// selected one must be what the registry attached to exactly that version string.
func c17Twins(rep *core.Report, thorough bool) int {
	uni := []string{"0.9.0", "1.0.0", "1.0.0+a", "1.0.0+b", "1.1.0"}
	src := func(i int) string { return fmt.Sprintf("https://example.com/t%d.tgz", i) }
	isTwin := func(i int) bool { return strings.HasPrefix(uni[i], "1.0.0") }
	var lists [][]int
	var rec func(cur []int)
	rec = func(cur []int) {
		tw := 0
		for _, c := range cur {
			if isTwin(c) {
				tw++
			}
		}
		if tw >= 2 {
			lists = append(lists, append([]int{}, cur...))
		}
		if len(cur) == 3 {
			return
		}
		for i := range uni {
			used := false
			for _, c := range cur {
				if c == i {
					used = true
				}
			}
			if !used {
				rec(append(cur, i))
			}
		}
	}
	rec(nil)
	singles := []AddCall{
		{Kind: "registry", Addr: c17Pkg, Allowed: "all", Finder: "F1"},
		{Kind: "registry", Addr: c17Pkg, Allowed: "only:1.0.0", Finder: "F1"},
		{Kind: "registry", Addr: c17Pkg, Allowed: "ruby:~> 1.0", Finder: "F1"},
		{Kind: "registry", Addr: c17Pkg, Allowed: "ruby:< 1.1.0", Finder: "F1"},
		{Kind: "final", Addr: c17Pkg + "@1.0.0", Finder: "F1"},
		{Kind: "final", Addr: c17Pkg + "@1.0.0+a", Finder: "F1"},
		{Kind: "final", Addr: c17Pkg + "@1.0.0+b", Finder: "F1"},
	}
	var hists [][]AddCall
	for _, a := range singles {
		hists = append(hists, []AddCall{a})
	}
	if thorough {
		for _, a := range singles {
			for _, b := range singles {
				hists = append(hists, []AddCall{a, b})
			}
		}
	} else {
		hists = append(hists, []AddCall{singles[5], singles[6]}, []AddCall{singles[0], singles[3]})
	}
	type job struct {
		list []int
		dep  int
		hist []AddCall
	}
	var jobs []job
	for _, l := range lists {
		for d := -1; d < len(l); d++ {
			for _, h := range hists {
				jobs = append(jobs, job{l, d, h})
			}
		}
	}
	mkWorld := func(j job) World {
		w := World{}
		for i := range uni {
			w.Pkgs = append(w.Pkgs, WPkg{Addr: src(i), Locs: []string{"", "m"}, NilMeta: true})
		}
		g := WReg{Pkg: c17Pkg}
		for k, vi := range j.list {
			v := WVer{V: uni[vi], Source: src(vi)}
			if k == j.dep {
				v.Deprecated, v.Reason, v.Link = true, "deprecated "+uni[vi], "https://example.com/d/"+uni[vi]
			}
			g.Versions = append(g.Versions, v)
		}
		w.Regs = []WReg{g}
		return w
	}
	fmt.Printf("  twin part: offered lists=%d histories=%d builds=%d\n", len(lists), len(hists), len(jobs))
	pool := core.NewPool(0)
	args := make([]BuildArg, len(jobs))
	pool.Map("build", len(jobs), func(i int) any {
		args[i] = BuildArg{World: mkWorld(jobs[i]), Adds: jobs[i].hist, Trace: true}
		return args[i]
	}, func(i int, r core.Result) {
		rep.Evaluations++
		j := jobs[i]
		w := args[i].World
		var offered []string
		for k, v := range w.Regs[0].Versions {
			s := v.V
			if k == j.dep {
				s += "(deprecated)"
			}
			offered = append(offered, s)
		}
		var hs []string
		for _, a := range j.hist {
			hs = append(hs, a.String())
		}
		desc := fmt.Sprintf("registry offers [%s]; history [%s]", strings.Join(offered, ", "), strings.Join(hs, " ; "))
		if r.Hung || r.Crashed {
			rep.Violation("sourcebundle.Builder/hang-or-crash", desc, "build", args[i])
			return
		}
		var out BuildOut
		core.MustOut(r, &out)
		bad := func(sig, f string, a ...any) {
			rep.Violation("sourcebundle.Builder/"+sig, desc+" :: "+fmt.Sprintf(f, a...), "build", args[i])
		}
		// candidates of every Add: the offered∧allowed versions of maximal precedence
		var cands []map[string]bool
		firstErr := -1
		for k, a := range j.hist {
			var set versions.Set
			if a.Kind == "final" {
				set = versions.Only(versions.MustParseVersion(strings.TrimPrefix(a.Addr, c17Pkg+"@")))
			} else {
				set = ParseAllowed(a.Allowed)
			}
			best, ok := SelectVersion(w.Regs[0].Versions, set)
			if !ok {
				firstErr = k
				break
			}
			bv := versions.MustParseVersion(best.V)
			c := map[string]bool{}
			for _, o := range w.Regs[0].Versions {
				ov := versions.MustParseVersion(o.V)
				if RefAllowed(set, ov) && ov.Same(bv) {
					c[ov.String()] = true
				}
			}
			cands = append(cands, c)
		}
		if firstErr >= 0 {
			rep.Outcome("twins/no-allowed-version")
			if len(out.Adds) <= firstErr || !out.Adds[firstErr].HasErrors {
				bad("no-allowed-version-not-reported", "Add #%d has no offered∧allowed version but reported no error", firstErr)
			}
			if out.Bundle != nil {
				bad("bundle-after-error", "a bundle came out of a build with an unresolvable registry source")
			}
			return
		}
		for k, a := range out.Adds {
			if a.HasErrors || a.Panic != "" {
				bad("spurious-error", "Add #%d reported an error although a version is allowed: %v %s", k, a.Diags, a.Panic)
				return
			}
		}
		if out.Bundle == nil {
			bad("no-bundle", "no bundle: %s %s", out.CloseErr, out.ClosePanic)
			return
		}
		rep.Outcome("twins/resolved-and-judged")
		var got []string
		if g := out.Bundle.RegVers[c17Pkg]; g != "" {
			got = strings.Split(g, ",")
		}
		rep.Nontrivial("twins:" + strings.Join(offered, ",") + "=>" + strings.Join(got, ","))
		if len(got) == 0 || len(got) > len(j.hist) {
			bad("wrong-version-selected", "bundle holds versions %v for %d requests", got, len(j.hist))
			return
		}
		for _, g := range got {
			in := false
			for _, c := range cands {
				if c[g] {
					in = true
				}
			}
			if !in {
				bad("wrong-version-selected", "bundle holds version %s, which is not a maximum of offered∧allowed for any request (candidates %v)", g, cands)
			}
		}
		for k, c := range cands {
			hit := false
			for _, g := range got {
				if c[g] {
					hit = true
				}
			}
			if !hit {
				bad("wrong-version-selected", "request #%d: none of its maxima %v is in the bundle (%v)", k, c, got)
			}
		}
		counts := map[string]int{}
		for _, c := range out.Calls {
			counts[c]++
		}
		for _, g := range got {
			var ent *WVer
			for k := range w.Regs[0].Versions {
				if w.Regs[0].Versions[k].V == g {
					ent = &w.Regs[0].Versions[k]
				}
			}
			if ent == nil {
				continue // reported above
			}
			if s := out.Bundle.RegSrc[c17Pkg+"@"+g]; s != ent.Source {
				bad("wrong-source-addr", "version %s: bundle records %q, registry said %q", g, s, ent.Source)
			}
			wantDep := ""
			if ent.Deprecated {
				wantDep = g + "|" + ent.Reason + "|" + ent.Link
			}
			if d := out.Bundle.RegDep[c17Pkg+"@"+g]; d != wantDep {
				bad("wrong-deprecation/equal-precedence-versions", "version %s: bundle records deprecation %q, registry attached %q to that version", g, d, wantDep)
			}
			if n := counts["sourceaddr "+c17Pkg+"@"+g]; n != 1 {
				bad("source-addr-request-count", "source address of %s requested %d times", g, n)
			}
		}
		if counts["versions "+c17Pkg] != 1 {
			bad("versions-requested-more-than-once", "version list requested %d times", counts["versions "+c17Pkg])
		}
		if i%503 == 0 {
			rep.Sample(desc + " => bundle versions " + strings.Join(got, ","))
		}
	})
	return len(jobs)
}
