package sys

import (
	"fmt"
	"strings"

	"verif/mc/core"
	"verif/mc/ref"
)

// C10 — bundle package directories are sanitised.

type c10Node struct {
	n     TNode
	class string // ok | bad | result (judged by the invariant on the result only)
}

func c10Menu() []c10Node {
	l := func(p, t, class string) c10Node { return c10Node{TNode{Path: p, Kind: "link", Target: t}, class} }
	return []c10Node{
		l("l", "a", "ok"), l("l", "d", "result"), l("d/l", "../a", "ok"), l("l", "d/f", "ok"), l("zz", "a", "ok"),
		l("l", "../terraform-sources.json", "bad"), l("l", "..", "bad"), l("l", "../..", "bad"), l("d/l", "../../x", "bad"),
		l("l", "<W>/a", "result"), l("l", "<AROUND>/sibling/canary", "bad"), l("l", "/nonexistent-verif", "bad"),
		l("l2", "a", "ok"), l("l", "l2", "ok-needs-l2"),
		l("l", "z/g", "result"), l("zz", "z/g", "result"), l("l", "z", "result"),
		l("zz", "../../sibling/canary", "bad"), l("l", "../../sibling/canary", "bad"),
		l("l", "nope", "bad"), {TNode{Path: "ff", Kind: "fifo"}, "bad"}, {TNode{Path: "d/ff", Kind: "fifo"}, "bad"},
		l("z/l", "../../..", "bad"), l("z/ok", "g", "ok"), l("l", "self", "bad"), l("l", ".", "result"),
		l("l", "../<TMPBASE>/a", "bad"), l("d/l", "../../<TMPBASE>/a", "bad"), // back in by the name the directory has only while it is being prepared
		{TNode{Path: ".terraformignore", Kind: "fifo"}, "bad"}, l(".terraformignore", "<AROUND>/sibling/canary", "bad"),
		{TNode{Path: "emptydir", Kind: "dir"}, "ok"}, {TNode{Path: "x", Kind: "file", Body: "x", Mode: 0600}, "ok"},
	}
}

func RunC10(tier string) int {
	rep := core.NewReport("C10", tier)
	thorough := tier == "thorough"
	menu := c10Menu()
	ruleFiles := []string{"", "z/\n", "z/\n!z/g\n", "l\n", "*\n!a\n", "l/\n"}
	base := []TNode{{Path: "a", Kind: "file", Body: "A"}, {Path: "d/f", Kind: "file", Body: "F"}, {Path: "z/g", Kind: "file", Body: "G"}}
	type job struct {
		extra []c10Node
		rules string
		dep   bool
	}
	var jobs []job
	k := 2
	_ = thorough
	var sets [][]c10Node
	exploreCombos(len(menu), k, timeZero, func(hists [][]int, handle func(int, string, bool)) {
		for i, h := range hists {
			var s []c10Node
			paths := map[string]bool{}
			ok := true
			for _, o := range h {
				if paths[menu[o].n.Path] {
					ok = false
				}
				paths[menu[o].n.Path] = true
				s = append(s, menu[o])
			}
			if ok {
				sets = append(sets, s)
			}
			handle(i, "", false)
		}
	})
	sets = append([][]c10Node{nil}, sets...)
	if thorough {
		// a few triples around the ignored-directory interplay
		for _, a := range sets {
			if len(a) == 2 {
				sets = append(sets, append(append([]c10Node{}, a...), menu[len(menu)-1]))
			}
		}
	}
	for _, s := range sets {
		ownRuleFile := false
		for _, e := range s {
			if e.n.Path == ".terraformignore" {
				ownRuleFile = true // the set brings its own (special) rule file: nothing is written over it
			}
		}
		for _, rf := range ruleFiles {
			if ownRuleFile && rf != "" {
				continue
			}
			for _, dep := range []bool{false, true} {
				jobs = append(jobs, job{s, rf, dep})
			}
		}
	}
	pool := core.NewPool(0)
	args := make([]BuildArg, len(jobs))
	pool.Map("build", len(jobs), func(i int) any {
		j := jobs[i]
		files := append([]TNode{}, base...)
		for _, e := range j.extra {
			files = append(files, e.n)
		}
		if j.rules != "" {
			files = append(files, TNode{Path: ".terraformignore", Kind: "file", Body: j.rules})
		}
		w := World{Pkgs: []WPkg{{Addr: P1, Files: files, NilMeta: true}, {Addr: P2, NilMeta: true}}}
		adds := []AddCall{{Kind: "remote", Addr: P1, Finder: "F1"}}
		if j.dep {
			w.Edges = []WEdge{{Content: P2, Loc: "", Finder: "F1", Kind: "remote", Target: P1, TFinder: "F2"}}
			adds = []AddCall{{Kind: "remote", Addr: P2, Finder: "F1"}}
		}
		args[i] = BuildArg{World: w, Adds: adds, Probes: []string{P1}, Trace: true}
		return args[i]
	}, func(i int, r core.Result) {
		rep.Evaluations++
		j := jobs[i]
		var names []string
		for _, e := range j.extra {
			names = append(names, e.n.String())
		}
		desc := fmt.Sprintf("fetched package = base{a,d/f,z/g} + [%s] rules=%q as-dependency=%v", strings.Join(names, " ; "), j.rules, j.dep)
		if r.Hung || r.Crashed {
			rep.Violation("sourcebundle.Builder/hang-or-crash", desc+" "+firstLines(r.Stderr, 3), "build", args[i])
			return
		}
		var out BuildOut
		core.MustOut(r, &out)
		bad := func(sig, f string, a ...any) {
			rep.Violation("sourcebundle.Builder/"+sig, desc+" :: "+fmt.Sprintf(f, a...), "build", args[i])
		}
		if len(out.Outside) > 0 {
			bad("touched-outside-target", "changes outside the target directory: %s", strings.Join(out.Outside, "; "))
		}
		// also when a fetched package is refused after the download succeeded, every started piece of work ends exactly once
		for _, v := range traceBracketing(out.Trace) {
			bad(v[0], "%s (trace %v)", v[1], out.Trace)
		}
		rules := ref.Builtin()
		rules = append(rules, ref.ParseRules(j.rules)...)
		survivingBad := ""
		hasL2 := false
		for _, e := range j.extra {
			if e.n.Path == "l2" {
				hasL2 = true
			}
		}
		onlyOK := true
		for _, e := range j.extra {
			class := e.class
			if class == "ok-needs-l2" {
				if hasL2 {
					class = "ok"
				} else {
					class = "bad"
				}
			}
			if ref.Excluded(rules, e.n.Path) {
				continue
			}
			if class == "bad" && survivingBad == "" {
				survivingBad = e.n.String()
			}
			if class != "ok" {
				onlyOK = false
			}
		}
		// "ok" links pointing at something the rules remove are not ok any more
		for _, e := range j.extra {
			if e.n.Kind == "link" && e.class == "ok" && !ref.Excluded(rules, e.n.Path) {
				tgt := strings.TrimPrefix(pathJoin(pathDir(e.n.Path), e.n.Target), "./")
				if tgt != "." && (ref.Excluded(rules, tgt) || ref.Excluded(rules, tgt+"/\x00")) {
					onlyOK = false
				}
			}
		}
		failed := out.Bundle == nil
		if failed {
			rep.Outcome("build-refused")
			if onlyOK && survivingBad == "" {
				var msgs []string
				for _, a := range out.Adds {
					for _, d := range a.Diags {
						msgs = append(msgs, d.Detail)
					}
				}
				bad("spurious-error", "a package with only acceptable content was refused: %s", strings.Join(msgs, " | "))
			}
			return
		}
		rep.Outcome("built-and-walked")
		if survivingBad != "" {
			bad("bad-content-accepted", "the build succeeded although the package holds %s (leaves the package / dangling / special file) which no rule removes", survivingBad)
		}
		if len(out.TmpLeft) > 0 {
			bad("temporary-directory-left", "%v", out.TmpLeft)
		}
		canon := ""
		p1dir := ""
		for _, l := range out.Bundle.Lookups {
			if l.Probe == P1 && l.Err == "" {
				p1dir = l.Rel
			}
		}
		if p1dir == "" {
			bad("lookup-fails", "the fetched package cannot be looked up in the finished bundle")
		}
		for _, n := range out.Bundle.Nodes {
			canon += n.Dir[:0] + n.Rel + ":" + n.Type + ":" + n.Resolved + ";"
			switch n.Type {
			case "file", "dir":
			case "link":
				if strings.HasPrefix(n.Resolved, "..") || n.Resolved == "" {
					bad("link-resolves-outside-package", "%s -> %s resolves to %s", n.Rel, n.Target, n.Resolved)
				} else if n.ResType != "file" && n.ResType != "dir" {
					bad("link-does-not-resolve-to-file-or-dir", "%s -> %s resolves to %s (%s)", n.Rel, n.Target, n.Resolved, n.ResType)
				}
			default:
				bad("special-file-in-package", "%s is a %s", n.Rel, n.Type)
			}
			if n.Dir == p1dir && n.Type != "dir" && ref.Excluded(rules, n.Rel) {
				bad("excluded-path-not-removed", "%s is excluded by the package's ignore rules but still there", n.Rel)
			}
		}
		// not-excluded files must still be there
		for _, f := range append(append([]TNode{}, base...), TNode{Path: "marker-root", Kind: "file"}) {
			if ref.Excluded(rules, f.Path) {
				continue
			}
			found := false
			for _, n := range out.Bundle.Nodes {
				if n.Dir == p1dir && n.Rel == f.Path {
					found = true
				}
			}
			if !found {
				bad("not-excluded-file-removed", "%s is not excluded by the rules but is gone", f.Path)
			}
		}
		rep.Nontrivial(canon)
		if i%53 == 0 {
			rep.Sample(desc + " => " + canon)
		}
	})
	// as an unprivileged user: packages whose content a non-root process cannot delete again (a read-only
	// directory with a file in it), alone and as content twins (the second copy has to be discarded)
	{
		upool := core.NewPool(65534)
		ro := []TNode{{Path: "ro", Kind: "dir", Mode: 0555}, {Path: "ro/data", Kind: "file", Body: "d"}}
		type uj struct {
			name string
			w    World
			adds []AddCall
		}
		ujs := []uj{
			{"one package with a read-only directory", World{Pkgs: []WPkg{{Addr: P1, Files: ro, NilMeta: true}}}, []AddCall{{Kind: "remote", Addr: P1, Finder: "F1"}}},
			{"two addresses with identical content holding a read-only directory", World{Pkgs: []WPkg{{Addr: P1, Files: ro, NilMeta: true}, {Addr: P4, Content: P1, Files: ro, NilMeta: true}}},
				[]AddCall{{Kind: "remote", Addr: P1, Finder: "F1"}, {Kind: "remote", Addr: P4, Finder: "F1"}}},
			{"the same, second one discovered as a dependency", World{Pkgs: []WPkg{{Addr: P1, Files: ro, NilMeta: true}, {Addr: P4, Content: P1, Files: ro, NilMeta: true}},
				Edges: []WEdge{{Content: P1, Loc: "", Finder: "F1", Kind: "remote", Target: P4, TFinder: "F1"}}}, []AddCall{{Kind: "remote", Addr: P1, Finder: "F1"}}},
		}
		// an ignored directory the user cannot empty (a read-only sub-directory), holding a link that leaves the bundle:
		// however the removal is attempted, the file the link names must keep its content, mode and times
		roOut := []TNode{{Path: ".terraformignore", Kind: "file", Body: "vendor/\n"}, {Path: "vendor/keep", Kind: "file", Body: "k"}, {Path: "vendor/ro", Kind: "dir", Mode: 0555},
			{Path: "vendor/ro/out", Kind: "link", Target: "<AROUND>/sibling/canary"}, {Path: "vendor/ro/data", Kind: "file", Body: "d"}}
		roOut2 := []TNode{{Path: ".terraformignore", Kind: "file", Body: "vendor/\n"}, {Path: "vendor/ro", Kind: "dir", Mode: 0555}, {Path: "vendor/ro/up", Kind: "link", Target: "../../../../sibling"}}
		ujs = append(ujs,
			uj{"an ignored directory with a read-only sub-directory holding a link to a file outside the bundle", World{Pkgs: []WPkg{{Addr: P1, Files: roOut, NilMeta: true}}}, []AddCall{{Kind: "remote", Addr: P1, Finder: "F1"}}},
			uj{"an ignored directory with a read-only sub-directory holding a link to a directory outside the bundle", World{Pkgs: []WPkg{{Addr: P1, Files: roOut2, NilMeta: true}}}, []AddCall{{Kind: "remote", Addr: P1, Finder: "F1"}}})
		uargs := make([]BuildArg, len(ujs))
		upool.Map("build", len(ujs), func(i int) any {
			uargs[i] = BuildArg{World: ujs[i].w, Adds: ujs[i].adds, Probes: []string{P1}, Trace: true}
			return uargs[i]
		}, func(i int, r core.Result) {
			rep.Evaluations++
			desc := "uid=65534 " + ujs[i].name
			if r.Hung || r.Crashed {
				rep.Violation("sourcebundle.Builder/hang-or-crash", desc+" "+firstLines(r.Stderr, 3), "build", uargs[i])
				return
			}
			var out BuildOut
			core.MustOut(r, &out)
			if out.SetupErr != "" {
				core.Fatalf("C10 uid part: %s", out.SetupErr)
			}
			if len(out.Outside) > 0 {
				rep.Violation("sourcebundle.Builder/touched-outside-target", fmt.Sprintf("%s :: changes outside the target directory: %s", desc, strings.Join(out.Outside, "; ")), "build", uargs[i])
			}
			if out.Bundle == nil {
				rep.Outcome("build-refused(uid 65534)")
				return
			}
			rep.Outcome("built(uid 65534)")
			rep.Nontrivial("uid65534:" + ujs[i].name)
			if len(out.TmpLeft) > 0 {
				rep.Violation("sourcebundle.Builder/temporary-directory-left", fmt.Sprintf("%s :: the build succeeded and left %v in the bundle directory", desc, out.TmpLeft), "build", uargs[i])
			}
			for _, v := range traceBracketing(out.Trace) {
				rep.Violation("sourcebundle.Builder/"+v[0], desc+" :: "+v[1], "build", uargs[i])
			}
		})
		jobs = append(jobs, make([]job, len(ujs))...)
	}
	rep.States = len(jobs)
	rep.Transitions = rep.Evaluations
	rep.Rule = "fetched tree = base{a,d/f,z/g} + every set of <=2 extra nodes over a 26-item menu (links: in-package file/dir, to the manifest, to the bundle root, out of the bundle, absolute into the temporary work dir, absolute outside, chains, through an ignored directory with the link sorting before/after it, dangling, self; fifos; inside an ignored directory) × 5 rule files × {root package, dependency}; real Builder; oracle: walk of every package directory with physical link resolution, ignore verdicts by ref/glob, must-fail for content that leaves the package/dangles/is special and survives the rules, no .tmp-* left, arena outside the target unchanged; plus three builds as uid 65534 with content that user cannot delete again (alone and as content twins). Distinct = resulting package tree."
	return rep.Finish()
}
