package sys

import (
	"bytes"
	"crypto/sha256"
	"encoding/hex"
	"encoding/json"
	"fmt"
	"io"
	"os"
	"path/filepath"
	"strings"
	"time"

	slug "github.com/hashicorp/go-slug"

	"verif/mc/core"
	"verif/mc/tarx"
)

// C16 — Pack output depends only on the tree and the options.

type PackStep struct {
	Nodes      []TNode `json:"nodes"`
	Ignore     bool    `json:"ignore,omitempty"`
	Deref      bool    `json:"deref,omitempty"`
	Legacy     bool    `json:"legacy,omitempty"`
	Src        string  `json:"src,omitempty"` // spelling; "" = <W>/src
	Cwd        string  `json:"cwd,omitempty"` // W-relative directory to chdir into ("" = /)
	PWD        string  `json:"pwd,omitempty"` // W-relative spelling of that directory put into $PWD (what a shell leaves behind after cd through a link; os.Getwd prefers it)
	Unpack     bool    `json:"unpack,omitempty"`
	Allow3     bool    `json:"allow3,omitempty"`      // three AllowSymlinkTarget options (spare slice capacity on the Packer)
	SlowWriter bool    `json:"slow_writer,omitempty"` // every Write of the output writer is a scheduling point (sched build): another call can run while this one is in the middle of copying a file
	Name       string  `json:"name,omitempty"`
}

type PackSeqArg struct {
	Steps  []PackStep `json:"steps"`
	Probes []PackStep `json:"probes"`
	UID    int        `json:"uid,omitempty"`
}

type PackSeqOut struct {
	Steps  []string `json:"steps"`
	Probes []string `json:"probes"`
}

func runPackStep(W string, st PackStep) string {
	if e := prepPackStep(W, st); e != "" {
		return e
	}
	if st.Unpack {
		data, _ := tarx.Build([]tarx.Entry{{Name: "u/", Kind: "dir"}, {Name: "u/f", Kind: "reg", Body: "x"}, {Name: "u/l", Kind: "link", Target: "f"}}, 0)
		dst := filepath.Join(W, "udst")
		os.MkdirAll(dst, 0755)
		if err := slug.Unpack(bytes.NewReader(data), dst); err != nil {
			return "unpack-err " + err.Error()
		}
		return "unpacked"
	}
	cwd := "/"
	if st.Cwd != "" {
		cwd = filepath.Join(W, st.Cwd)
	}
	if err := os.Chdir(cwd); err != nil {
		return "SETUP-ERROR chdir " + err.Error()
	}
	defer os.Chdir("/")
	if st.PWD != "" {
		os.Setenv("PWD", W+"/"+st.PWD) // not cleaned: "hop/.." is the directory above where hop leads
		defer os.Unsetenv("PWD")
	}
	return packOnly(W, st)
}

// prepPackStep re-materialises the step's tree at W (the SAME path every time).
func prepPackStep(W string, st PackStep) string {
	ents, _ := os.ReadDir(W)
	for _, e := range ents {
		core.RemoveArena(filepath.Join(W, e.Name()))
	}
	os.MkdirAll(filepath.Join(W, "src"), 0755)
	os.MkdirAll(filepath.Join(W, "x"), 0755)
	if err := BuildTree(W, st.Nodes); err != nil {
		return "SETUP-ERROR " + err.Error()
	}
	return ""
}

func newPackerFor(st PackStep) *slug.Packer {
	var opts []slug.PackerOption
	if st.Ignore {
		opts = append(opts, slug.ApplyTerraformIgnore())
	}
	if st.Deref {
		opts = append(opts, slug.DereferenceSymlinks())
	}
	if st.Allow3 {
		opts = append(opts, slug.AllowSymlinkTarget("/nonexistent-verif/one"), slug.AllowSymlinkTarget("/nonexistent-verif/two"), slug.AllowSymlinkTarget("/nonexistent-verif/three"))
	}
	p, err := slug.NewPacker(opts...)
	if err != nil {
		panic("INTERNAL NewPacker: " + err.Error())
	}
	return p
}

// writerHook is set by the scheduler build: a scheduling point inside the output writer.
var writerHook func()

type hookWriter struct{ w io.Writer }

func (h hookWriter) Write(p []byte) (int, error) {
	if writerHook != nil {
		writerHook()
	}
	return h.w.Write(p)
}

// failAfterWriter fails once n bytes were accepted (a Pack that dies in the middle of a file body).
type failAfterWriter struct{ n int }

func (f *failAfterWriter) Write(p []byte) (int, error) {
	if f.n < len(p) {
		f.n = 0
		return 0, errInjectedWrite
	}
	f.n -= len(p)
	return len(p), nil
}

// packOnly runs the Pack call of a step and renders its output canonically.
func packOnly(W string, st PackStep) string { return packWith(nil, W, st) }

// packWith uses the given (possibly shared) Packer, or a fresh one when nil.
func packWith(shared *slug.Packer, W string, st PackStep) string {
	src := filepath.Join(W, "src")
	if st.Src != "" {
		src = strings.ReplaceAll(st.Src, "<W>", W)
	}
	var buf bytes.Buffer
	var out io.Writer = &buf
	if st.SlowWriter {
		out = hookWriter{&buf}
	}
	var meta *slug.Meta
	var err error
	pan := ""
	func() {
		defer func() {
			if r := recover(); r != nil {
				pan = fmt.Sprint(r)
			}
		}()
		switch {
		case shared != nil:
			meta, err = shared.Pack(src, out)
		case st.Legacy:
			meta, err = slug.Pack(src, out, st.Deref)
		default:
			meta, err = newPackerFor(st).Pack(src, out)
		}
	}()
	if pan != "" {
		return "PANIC " + pan
	}
	if err != nil {
		return "ERROR " + strings.ReplaceAll(err.Error(), W, "<W>")
	}
	dec, derr := tarx.Decode(buf.Bytes())
	var sb strings.Builder
	fmt.Fprintf(&sb, "files=%q size=%d decode_err=%v\n", meta.Files, meta.Size, derr)
	for _, e := range dec {
		h := sha256.Sum256([]byte(e.Body))
		fmt.Fprintf(&sb, "%s|%c|%o|%d|%s|%d|%s\n", e.Name, e.Type, e.Mode, e.MSec, strings.ReplaceAll(e.Linkname, W, "<W>"), e.Size, hex.EncodeToString(h[:6]))
	}
	return sb.String()
}

func packSeqHandler(raw json.RawMessage) (any, error) {
	var arg PackSeqArg
	if err := json.Unmarshal(raw, &arg); err != nil {
		return nil, err
	}
	// a FIXED path per worker process: state cached by path must show
	W := filepath.Join(core.ArenaRoot(), fmt.Sprintf("seq-%d-%d", os.Getuid(), os.Getpid()), "W")
	os.MkdirAll(W, 0777)
	defer core.RemoveArena(filepath.Dir(W))
	var out PackSeqOut
	for _, st := range arg.Steps {
		out.Steps = append(out.Steps, runPackStep(W, st))
	}
	for _, st := range arg.Probes {
		out.Probes = append(out.Probes, runPackStep(W, st))
	}
	return out, nil
}

func init() { core.Register("packseq", packSeqHandler) }

func c16Trees() map[string][]TNode {
	return map[string][]TNode{
		"plain":  {{Path: "src/a", Kind: "file", Body: "A"}, {Path: "src/d/b", Kind: "file", Body: "B"}, {Path: "src/e", Kind: "dir"}},
		"links":  {{Path: "src/a", Kind: "file", Body: "A"}, {Path: "src/l", Kind: "link", Target: "a"}, {Path: "src/d/up", Kind: "link", Target: "../a"}, {Path: "src/d/b", Kind: "file", Body: "B"}, {Path: "src/labs", Kind: "link", Target: "<W>/src/a"}}, // incl. an absolute link into the tree
		"rules":  {{Path: "src/a", Kind: "file", Body: "A"}, {Path: "src/skip/x", Kind: "file", Body: "X"}, {Path: "src/keep/x", Kind: "file", Body: "X"}, {Path: "src/.terraformignore", Kind: "file", Body: "skip/\n"}},
		"neg":    {{Path: "src/a", Kind: "file", Body: "A"}, {Path: "src/b", Kind: "file", Body: "B"}, {Path: "src/.terraformignore", Kind: "file", Body: "!a\nb\n"}},
		"git":    {{Path: "src/a", Kind: "file", Body: "A"}, {Path: "src/.git/HEAD", Kind: "file", Body: "ref"}, {Path: "src/.terraform/modules/m/x", Kind: "file", Body: "m"}, {Path: "src/.terraform/y", Kind: "file", Body: "y"}},
		"locked": {{Path: "src/a", Kind: "file", Body: "A"}, {Path: "src/.git/locked/x", Kind: "file", Body: "x"}, {Path: "src/.git/locked", Kind: "dir", Mode: -1}},
		"bigA":   {{Path: "src/a", Kind: "file", Body: "A"}, {Path: "src/big", Kind: "file", Body: "<NOISE:150000>"}},
		"bigB":   {{Path: "src/b", Kind: "file", Body: "B"}, {Path: "src/big", Kind: "file", Body: "<NOISEB:150000>"}},
		"deref":  {{Path: "src/a", Kind: "file", Body: "A"}, {Path: "src/ext", Kind: "link", Target: "../out/dir"}, {Path: "out/dir/g", Kind: "file", Body: "G"}},
	}
}

// nodes that exist around src for the spelling variants
func c16Around() []TNode {
	return []TNode{{Path: "anc", Kind: "link", Target: "."}, {Path: "x/deep", Kind: "dir"}, {Path: "hop", Kind: "link", Target: "x/deep"}, {Path: "lnhop", Kind: "link", Target: "hop/../../src"},
		{Path: "lnabs", Kind: "link", Target: "<W>/src"}, {Path: "lnrel", Kind: "link", Target: "src"}, {Path: "ln2", Kind: "link", Target: "lnabs"}, {Path: "x/lnup", Kind: "link", Target: "../src"}, {Path: "ln3", Kind: "link", Target: "x/lnup"}}
}

func RunC16(tier string) int {
	rep := core.NewReport("C16", tier)
	thorough := tier == "thorough"
	deadline := time.Now().Add(110 * time.Second)
	if thorough {
		deadline = time.Now().Add(25 * time.Minute)
	}
	trees := c16Trees()
	var parts []map[string]any

	// ---- part 1: spelling × cwd ----
	{
		type sp struct{ src, cwd, pwd string }
		type sp0 struct{ src, cwd string }
		var spellings []sp
		for _, s := range []sp0{
			{"<W>/src", ""}, {"<W>/src/", ""}, {"<W>/./src", ""}, {"<W>/x/../src", ""}, {"<W>/src/.", ""}, {"<W>//src", ""},
			{"src", "."}, {"./src", "."}, {".", "src"}, {"../src", "x"}, {"./", "src"}, {"../src/", "x"},
			{"<W>/lnabs", ""}, {"<W>/lnrel", ""}, {"<W>/ln2", ""}, {"<W>/ln3", ""}, {"<W>/x/lnup", ""},
			{"lnrel", "."}, {"lnabs", "."}, {"../lnrel", "x"}, {"<W>/lnrel", "x"}, {"<W>/lnrel", "src"}, {"<W>/lnabs/", ""}, {"ln2", "."}, {"lnup", "x"},
			{"<W>/src", "src"}, {"<W>/src", "x"}, {"<W>/src", "."}, {"<W>/lnhop", ""}, {"lnhop", "."}, {"../lnhop", "x"},
			// a link in front of the last component (anc -> .), and '..' after a link (hop -> x/deep)
			{"<W>/anc/src", ""}, {"anc/src", "."}, {"<W>/anc/anc/src/", ""}, {"<W>/hop/../../src", ""}, {"hop/../../src", "."}, {"<W>/anc/lnrel", ""},
		} {
			spellings = append(spellings, sp{s.src, s.cwd, ""})
		}
		// relative spellings with $PWD naming the working directory by way of a link (a shell after `cd lnrel`)
		spellings = append(spellings, sp{".", "src", "lnrel"}, sp{"./", "src", "anc/src"}, sp{"../src", "x", "hop/.."}, sp{"src", ".", "anc"}, sp{".", "src", "lnhop"}, sp{"lnrel", ".", "anc/anc"})
		pool := core.NewPool(0)
		type job struct {
			tree string
			opt  PackStep
			s    sp
		}
		var jobs []job
		for name := range trees {
			if name == "locked" {
				continue
			}
			for _, opt := range []PackStep{{}, {Ignore: true}, {Ignore: true, Deref: true}, {Legacy: true}} {
				for _, s := range spellings {
					jobs = append(jobs, job{name, opt, s})
				}
			}
		}
		outs := make([]string, len(jobs))
		args := make([]PackSeqArg, len(jobs))
		pool.Map("packseq", len(jobs), func(i int) any {
			j := jobs[i]
			st := j.opt
			st.Nodes = append(append([]TNode{}, trees[j.tree]...), c16Around()...)
			st.Src, st.Cwd, st.PWD = j.s.src, j.s.cwd, j.s.pwd
			args[i] = PackSeqArg{Probes: []PackStep{st}}
			return args[i]
		}, func(i int, r core.Result) {
			rep.Evaluations++
			if r.Hung || r.Crashed {
				rep.Violation("slug.Pack/hang-or-crash", fmt.Sprintf("tree %s spelling %v", jobs[i].tree, jobs[i].s), "packseq", args[i])
				return
			}
			var out PackSeqOut
			core.MustOut(r, &out)
			outs[i] = out.Probes[0]
		})
		base := map[string]string{}
		for i, j := range jobs {
			if j.s == spellings[0] {
				base[j.tree+fmt.Sprint(j.opt)] = outs[i]
			}
		}
		for i, j := range jobs {
			b := base[j.tree+fmt.Sprint(j.opt)]
			rep.Nontrivial("spell:" + outs[i])
			if strings.HasPrefix(outs[i], "SETUP-ERROR") {
				core.Fatalf("setup: %s", outs[i])
			}
			if outs[i] != b {
				viaLink := strings.Contains(j.s.src, "ln")
				sig := "slug.Pack/output-depends-on-spelling-or-cwd"
				if viaLink {
					sig += "/source-is-a-symlink"
					if strings.Contains(j.s.src, "ln2") || strings.Contains(j.s.src, "ln3") {
						sig += "-chain"
					} else if strings.Contains(j.s.src, "lnrel") || strings.Contains(j.s.src, "lnup") {
						sig += "-with-relative-target"
					}
				}
				rep.Violation(sig, fmt.Sprintf("tree %s opts{ignore=%v deref=%v legacy=%v} source %q from cwd %q ($PWD spelled %q) gives\n%s\nbut the clean absolute spelling gives\n%s", j.tree, j.opt.Ignore, j.opt.Deref, j.opt.Legacy, j.s.src, j.s.cwd, j.s.pwd, outs[i], b), "packseq", args[i])
			} else {
				rep.Outcome("spelling-equal")
			}
			if i%97 == 0 {
				rep.Sample(fmt.Sprintf("tree %s source %q cwd %q => %s", j.tree, j.s.src, j.s.cwd, oneLine(outs[i])))
			}
		}
		rep.States += len(jobs)
		parts = append(parts, map[string]any{"part": "spelling-x-cwd", "runs": len(jobs), "spellings": len(spellings)})
		fmt.Printf("  part spelling×cwd: runs=%d\n", len(jobs))
	}

	// ---- part 2: histories (fresh process per history, same path re-materialised) ----
	for _, uid := range []int{0, 65534} {
		if time.Now().After(deadline) {
			rep.Exhaustive = false
			break
		}
		pool := core.NewPool(uid)
		pool.Fresh = true
		ops := []PackStep{
			{Name: "pack(plain)", Nodes: trees["plain"]},
			{Name: "pack(rules,ignore)", Nodes: trees["rules"], Ignore: true},
			{Name: "pack(neg,ignore)", Nodes: trees["neg"], Ignore: true},
			{Name: "legacy(neg)", Nodes: trees["neg"], Legacy: true},
			{Name: "pack(git,ignore)", Nodes: trees["git"], Ignore: true},
			{Name: "pack(deref)", Nodes: trees["deref"], Deref: true, Ignore: true},
			{Name: "unpack", Unpack: true},
			{Name: "pack(links)", Nodes: trees["links"]},
			// a relative source from a working directory that $PWD names by way of the link sw (-> src) ...
			{Name: "pack(., $PWD through sw->src)", Nodes: append(append([]TNode{}, trees["plain"]...), TNode{Path: "sw", Kind: "link", Target: "src"}), Src: ".", Cwd: "src", PWD: "sw"},
		}
		probes := []PackStep{
			{Nodes: trees["plain"]}, {Nodes: trees["plain"], Ignore: true}, {Nodes: trees["rules"], Ignore: true}, {Nodes: trees["git"], Ignore: true}, {Nodes: trees["git"], Legacy: true},
			{Nodes: trees["neg"], Ignore: true}, {Nodes: trees["locked"], Ignore: true}, {Nodes: trees["deref"], Ignore: true, Deref: true}, {Nodes: trees["links"], Ignore: true},
			{Nodes: append(append([]TNode{}, trees["rules"]...), TNode{Path: "src/.terraformignore", Kind: "file", Body: "keep/\n"}), Ignore: true}, // same path, other rule file
			// ... and the same spelling after the link was pointed somewhere else: what $PWD says is the same string, the directory is another
			{Nodes: append(append([]TNode{}, trees["plain"]...), TNode{Path: "alt/only-in-alt", Kind: "file", Body: "ALT"}, TNode{Path: "sw", Kind: "link", Target: "alt"}), Src: ".", Cwd: "alt", PWD: "sw"},
		}
		depth := 2
		if thorough {
			depth = 3
		}
		var hists [][]int
		var rec func(cur []int)
		rec = func(cur []int) {
			hists = append(hists, append([]int{}, cur...))
			if len(cur) == depth {
				return
			}
			for i := range ops {
				rec(append(cur, i))
			}
		}
		rec(nil)
		// one (history, probe) pair per fresh process; the baseline of a probe is the empty history
		type hp struct{ h, k int }
		var pairs []hp
		for h := range hists {
			for k := range probes {
				pairs = append(pairs, hp{h, k})
			}
		}
		res := make([]string, len(pairs))
		args := make([]PackSeqArg, len(pairs))
		pool.Map("packseq", len(pairs), func(i int) any {
			var steps []PackStep
			for _, o := range hists[pairs[i].h] {
				steps = append(steps, ops[o])
			}
			args[i] = PackSeqArg{Steps: steps, Probes: []PackStep{probes[pairs[i].k]}, UID: uid}
			return args[i]
		}, func(i int, r core.Result) {
			rep.Evaluations++
			if r.Hung || r.Crashed {
				rep.Violation("slug.Pack/hang-or-crash", fmt.Sprintf("history %v probe %d", hists[pairs[i].h], pairs[i].k), "packseq", args[i])
				res[i] = "HANG-OR-CRASH"
				return
			}
			var out PackSeqOut
			core.MustOut(r, &out)
			res[i] = out.Probes[0]
		})
		base := map[int]string{}
		for i, p := range pairs {
			if len(hists[p.h]) == 0 {
				base[p.k] = res[i]
				if strings.HasPrefix(res[i], "SETUP-ERROR") {
					core.Fatalf("setup: %s", res[i])
				}
			}
		}
		for i, p := range pairs {
			h := hists[p.h]
			var names []string
			negFirst := false
			for _, o := range h {
				names = append(names, ops[o].Name)
				if strings.Contains(ops[o].Name, "neg") {
					negFirst = true
				}
			}
			rep.Nontrivial(fmt.Sprintf("hist:%d:%v:%d:%s", uid, h, p.k, res[i]))
			if res[i] != base[p.k] {
				sig := "slug.Pack/output-depends-on-history"
				if negFirst && p.k == 6 {
					sig += "/after-rule-file-starting-with-negation/unreadable-.git-subdir"
				}
				rep.Violation(sig, fmt.Sprintf("uid=%d after history [%s] probe #%d gives\n%s\nbut in a fresh process\n%s", uid, strings.Join(names, " ; "), p.k, res[i], base[p.k]), "packseq", args[i])
			} else {
				rep.Outcome("history-probe-equal")
			}
		}
		rep.States += len(hists)
		parts = append(parts, map[string]any{"part": fmt.Sprintf("histories(uid=%d)", uid), "histories": len(hists), "depth": depth, "probes": len(probes)})
		fmt.Printf("  part histories uid=%d: histories=%d probes=%d\n", uid, len(hists), len(probes))
	}
	if sc16 != nil && time.Now().Before(deadline) {
		parts = append(parts, sc16(rep, tier))
	}
	rep.Transitions = rep.Evaluations
	rep.Extra["parts"] = parts
	rep.Rule = "spelling×cwd: 6 trees × 4 option sets × every (source spelling, cwd) pair of the list (count in parts) incl. relative (also with $PWD naming the working directory by way of a link), through a link whose target has '..' after a symlinked directory, dotted, trailing slash, and by way of links with absolute/relative targets and chains; every output (decoded headers + bodies + Meta) must equal that of the clean absolute spelling. Histories: every sequence of <=2/3 calls from 8 operations (Packs incl. rule files starting with a negation, legacy Pack, dereferencing, an Unpack), each history in a FRESH worker process re-materialising trees at the same path, followed by 10 probe Packs whose outputs must equal those of a fresh process; as root and uid 65534 (where an unreadable .git/locked makes pruning observable). Schedules: see sched part."
	return rep.Finish()
}

// sc16 is set by the scheduler part (E3) when built in.
var sc16 func(rep *core.Report, tier string) map[string]any
