package sys

import (
	"bytes"
	"encoding/json"
	"errors"
	"fmt"
	"io"
	"os"
	"path/filepath"
	"sort"
	"strings"
	"syscall"
	"time"

	slug "github.com/hashicorp/go-slug"
	"golang.org/x/sys/unix"

	"verif/mc/core"
	"verif/mc/fsx"
	"verif/mc/tarx"
)

// TNode is one node of a generated directory tree; paths are relative to the
// arena work directory W (e.g. "src/a", "out/dir/g").
type TNode struct {
	Path   string `json:"p"`
	Kind   string `json:"k"` // file dir link fifo
	Body   string `json:"b,omitempty"`
	Target string `json:"l,omitempty"`
	Mode   int    `json:"m,omitempty"` // 0 default; -1 = 0000
	MTime  int64  `json:"t,omitempty"` // unix ns; 0 = tarx.BaseTime
}

func (n TNode) String() string {
	s := n.Kind + ":" + n.Path
	if n.Kind == "link" {
		s += "->" + n.Target
	}
	if n.Mode != 0 {
		if n.Mode < 0 {
			s += "%0000"
		} else {
			s += fmt.Sprintf("%%%04o", n.Mode)
		}
	}
	if n.MTime != 0 {
		s += fmt.Sprintf("@+%.1fs", float64(n.MTime-tarx.BaseTime.UnixNano())/1e9)
	}
	if n.Kind == "file" && n.Body != "" && len(n.Body) < 12 {
		s += "=" + n.Body
	} else if n.Kind == "file" && n.Body != "" {
		s += fmt.Sprintf("=<%dB>", len(n.Body))
	}
	return s
}

func TreeString(ns []TNode) string {
	var s []string
	for _, n := range ns {
		s = append(s, n.String())
	}
	return strings.Join(s, " ; ")
}

// BuildTree materialises nodes below W. "<W>" in targets/bodies is replaced
// by W, a body of "<SELF>" by the node's own W-relative path.
func BuildTree(W string, nodes []TNode) error {
	for _, n := range nodes {
		p := filepath.Join(W, n.Path)
		if err := os.MkdirAll(filepath.Dir(p), 0755); err != nil {
			return err
		}
		switch n.Kind {
		case "file":
			body := strings.ReplaceAll(n.Body, "<W>", W)
			if body == "<SELF>" {
				body = n.Path
			}
			if strings.HasPrefix(body, "<NOISE:") {
				// incompressible deterministic content, so that the gzip layer hands
				// output to the writer while the file is still being read
				var k int
				fmt.Sscanf(body, "<NOISE:%d>", &k)
				b := make([]byte, k)
				x := uint32(2463534242)
				for i := range b {
					x ^= x << 13
					x ^= x >> 17
					x ^= x << 5
					b[i] = 33 + byte(x>>11)%94 // printable: results travel as JSON strings
				}
				body = string(b)
			}
			if strings.HasPrefix(body, "<NOISEB:") {
				// a second, different incompressible sequence
				var k int
				fmt.Sscanf(body, "<NOISEB:%d>", &k)
				b := make([]byte, k)
				x := uint32(88172645)
				for i := range b {
					x ^= x << 13
					x ^= x >> 17
					x ^= x << 5
					b[i] = 33 + byte(x>>9)%94
				}
				body = string(b)
			}
			if err := os.WriteFile(p, []byte(body), 0644); err != nil {
				return err
			}
		case "dir":
			if err := os.MkdirAll(p, 0755); err != nil {
				return err
			}
		case "link":
			if err := os.Symlink(strings.ReplaceAll(n.Target, "<W>", W), p); err != nil {
				return err
			}
		case "fifo":
			if err := syscall.Mkfifo(p, 0644); err != nil {
				return err
			}
		default:
			return fmt.Errorf("kind %q", n.Kind)
		}
	}
	// attributes: every directory and file gets an explicit mtime; directories deepest first
	explicit := map[string]TNode{}
	for _, n := range nodes {
		explicit[filepath.Join(W, n.Path)] = n
	}
	var all []string
	filepath.Walk(W, func(p string, fi os.FileInfo, err error) error {
		if err == nil && p != W {
			all = append(all, p)
		}
		return nil
	})
	sort.Slice(all, func(i, j int) bool { return len(all[i]) > len(all[j]) })
	for _, p := range all {
		fi, err := os.Lstat(p)
		if err != nil {
			continue
		}
		if fi.Mode()&os.ModeSymlink != 0 {
			// link times are part of the tree too: pin them (lutimes)
			ts := []unix.Timespec{unix.NsecToTimespec(tarx.BaseTime.UnixNano()), unix.NsecToTimespec(tarx.BaseTime.UnixNano())}
			unix.UtimesNanoAt(unix.AT_FDCWD, p, ts, unix.AT_SYMLINK_NOFOLLOW)
			continue
		}
		mt := tarx.BaseTime
		n, ok := explicit[p]
		if ok && n.MTime != 0 {
			mt = time.Unix(0, n.MTime)
		}
		if fi.Mode()&os.ModeNamedPipe != 0 {
			continue
		}
		os.Chtimes(p, mt, mt)
	}
	// modes last (a directory without x/w would block the steps above)
	for _, p := range all {
		if n, ok := explicit[p]; ok && n.Mode != 0 && n.Kind != "link" {
			m := os.FileMode(n.Mode)
			if n.Mode < 0 {
				m = 0
			}
			if err := os.Chmod(p, m); err != nil {
				return err
			}
		}
	}
	return nil
}

type PackArg struct {
	Nodes      []TNode `json:"nodes"`
	Src        string  `json:"src,omitempty"` // spelling of the source argument; "" = "<W>/src"
	Cwd        string  `json:"cwd,omitempty"` // chdir (W-relative or "<W>...") before Pack
	Ignore     bool    `json:"ignore,omitempty"`
	Deref      bool    `json:"deref,omitempty"`
	AllowOut   bool    `json:"allow_out,omitempty"`   // AllowSymlinkTarget(<W>/out)
	AllowEmpty bool    `json:"allow_empty,omitempty"` // AllowSymlinkTarget(""): must allow nothing new
	Legacy     bool    `json:"legacy,omitempty"`      // use package-level slug.Pack(src, w, deref)
	Roundtrip  bool    `json:"roundtrip,omitempty"`
	Reuse      bool    `json:"reuse,omitempty"`     // the same *Packer first packs the fixed tree <W>/pre
	PreSrc     string  `json:"pre_src,omitempty"`   // with Reuse: pack this directory first instead (its nodes are part of Nodes)
	PreFails   bool    `json:"pre_fails,omitempty"` // with Reuse: the earlier Pack fails half-way (dangling out-of-tree link sorted last)
	AllowRel   string  `json:"allow_rel,omitempty"` // AllowSymlinkTarget with a RELATIVE entry (relative to the root of each operation)
	UID        int     `json:"uid,omitempty"`
	// writer faults (C12)
	FailAt    int  `json:"fail_at,omitempty"` // 0 = none; N>0: the writer fails once N-1 bytes were accepted
	ShortFail bool `json:"short_fail,omitempty"`
	NoTrees   bool `json:"no_trees,omitempty"`
	// the tree changes while Pack runs (C20): when the writer is called for the
	// TouchAt-th time, the file TouchPath (W-relative) is truncated/extended to TouchSize
	TouchAt   int    `json:"touch_at,omitempty"`
	TouchPath string `json:"touch_path,omitempty"`
	TouchSize int64  `json:"touch_size,omitempty"`
}

type PackOut struct {
	Touched            bool                `json:"touched,omitempty"`
	EarlierMetaChanged string              `json:"earlier_meta_changed,omitempty"`
	WriteCalls         int                 `json:"write_calls,omitempty"`
	SetupErr           string              `json:"setup_err,omitempty"`
	Err                string              `json:"err,omitempty"`
	Illegal            bool                `json:"illegal,omitempty"`
	Panic              string              `json:"panic,omitempty"`
	Files              []string            `json:"files,omitempty"`
	Size               int64               `json:"size"`
	Entries            []tarx.Decoded      `json:"entries,omitempty"`
	DecodeErr          string              `json:"decode_err,omitempty"`
	SrcTree            map[string]fsx.Node `json:"src_tree,omitempty"`
	UnpackErr          string              `json:"unpack_err,omitempty"`
	UnpackIll          bool                `json:"unpack_illegal,omitempty"`
	DstTree            map[string]fsx.Node `json:"dst_tree,omitempty"`
	SourceDiff         []string            `json:"source_diff,omitempty"`
	Resolved           map[string]string   `json:"resolved,omitempty"`      // archive name -> W-relative physical path of src/<name>
	ParentPhys         map[string]string   `json:"parent_phys,omitempty"`   // archive name -> W-relative physical path of the directory holding src/<name>
	AbsRel             map[string]string   `json:"abs_rel,omitempty"`       // archive name -> W-relative form of an absolute link target
	ResolvedPerm       map[string]uint32   `json:"resolved_perm,omitempty"` // regular entry -> permission bits of the file src/<name> physically resolves to
	HopPhys            map[string]string   `json:"hop_phys,omitempty"`      // link entry -> W-relative place its own target names when every component BEFORE the last is followed the way the kernel does
	WriterErred        bool                `json:"writer_erred,omitempty"`
	Written            int                 `json:"written"`
	SlugLen            int                 `json:"slug_len"`
}

type faultWriter struct {
	calls  int
	onCall func(n int)
	buf    bytes.Buffer
	failAt int
	short  bool
	erred  bool
}

var errInjectedWrite = errors.New("injected write fault")

func (f *faultWriter) Write(p []byte) (int, error) {
	f.calls++
	if f.onCall != nil {
		f.onCall(f.calls)
	}
	if f.failAt > 0 {
		room := f.failAt - 1 - f.buf.Len()
		if room < len(p) {
			f.erred = true
			if f.short && room > 0 {
				f.buf.Write(p[:room])
				return room, errInjectedWrite
			}
			return 0, errInjectedWrite
		}
	}
	return f.buf.Write(p)
}

func packHandler(raw json.RawMessage) (any, error) {
	var arg PackArg
	if err := json.Unmarshal(raw, &arg); err != nil {
		return nil, err
	}
	return runPack(arg), nil
}

func runPack(arg PackArg) (out PackOut) {
	base := core.NewArena()
	defer core.RemoveArena(base)
	W := filepath.Join(base, "W")
	os.MkdirAll(filepath.Join(W, "src"), 0755)
	if err := BuildTree(W, arg.Nodes); err != nil {
		out.SetupErr = err.Error()
		return
	}
	if !arg.NoTrees {
		out.SrcTree = fsx.Tree(filepath.Join(W, "src"))
	}
	src := filepath.Join(W, "src")
	if arg.Src != "" {
		src = strings.ReplaceAll(arg.Src, "<W>", W)
	}
	if arg.Cwd != "" {
		cwd := strings.ReplaceAll(arg.Cwd, "<W>", W)
		if !filepath.IsAbs(cwd) {
			cwd = filepath.Join(W, cwd)
		}
		if err := os.Chdir(cwd); err != nil {
			out.SetupErr = "chdir: " + err.Error()
			return
		}
		defer os.Chdir("/")
	}
	var opts []slug.PackerOption
	if arg.Ignore {
		opts = append(opts, slug.ApplyTerraformIgnore())
	}
	if arg.Deref {
		opts = append(opts, slug.DereferenceSymlinks())
	}
	if arg.AllowOut {
		opts = append(opts, slug.AllowSymlinkTarget(filepath.Join(W, "out")))
	}
	if arg.AllowEmpty {
		opts = append(opts, slug.AllowSymlinkTarget(""))
	}
	if arg.AllowRel != "" {
		opts = append(opts, slug.AllowSymlinkTarget(arg.AllowRel))
	}
	if arg.Reuse && arg.PreSrc == "" {
		BuildTree(W, []TNode{{Path: "pre/f", Kind: "file", Body: "12345"}, {Path: "pre/sub/g", Kind: "file", Body: "678"},
			{Path: "pre/sub/ok", Kind: "link", Target: "../f"}, {Path: "pre/sub/a", Kind: "link", Target: "../a"}, {Path: "pre/a", Kind: "file", Body: "pa"},
			{Path: "pre/l", Kind: "link", Target: "a"}, {Path: "pre/d/l", Kind: "link", Target: "../a"}, {Path: "pre/zz", Kind: "link", Target: "a"}})
		if arg.PreFails {
			// the first Pack on this Packer FAILS after having written entries
			BuildTree(W, []TNode{{Path: "pre/zzz-ext", Kind: "link", Target: "../does-not-exist/f"}})
		}
	}
	before := fsx.Snapshot(W)
	fw := &faultWriter{failAt: arg.FailAt, short: arg.ShortFail}
	if arg.TouchAt > 0 {
		fw.onCall = func(n int) {
			if n == arg.TouchAt {
				if err := os.Truncate(filepath.Join(W, arg.TouchPath), arg.TouchSize); err != nil {
					panic("INTERNAL truncate: " + err.Error())
				}
				out.Touched = true
			}
		}
	}
	var meta *slug.Meta
	var err error
	func() {
		defer func() {
			if r := recover(); r != nil {
				out.Panic = fmt.Sprint(r)
			}
		}()
		if arg.Legacy {
			meta, err = slug.Pack(src, fw, arg.Deref)
		} else {
			var p *slug.Packer
			p, err = slug.NewPacker(opts...)
			var preBuf bytes.Buffer
			var preMeta *slug.Meta
			var preFiles []string
			var preSize int64
			if err == nil && arg.Reuse {
				pre := filepath.Join(W, "pre")
				if arg.PreSrc != "" {
					pre = strings.ReplaceAll(arg.PreSrc, "<W>", W)
				}
				var perr error
				preMeta, perr = p.Pack(pre, &preBuf)
				if perr != nil {
					preMeta = nil
				} else {
					preFiles, preSize = append([]string{}, preMeta.Files...), preMeta.Size
				}
			}
			if err == nil {
				meta, err = p.Pack(src, fw)
			}
			// what the earlier call returned is the caller's: a later call on the same Packer must not change it
			if preMeta != nil && (strings.Join(preMeta.Files, "\x00") != strings.Join(preFiles, "\x00") || preMeta.Size != preSize) {
				out.EarlierMetaChanged = fmt.Sprintf("the Meta returned by the earlier Pack on this Packer was %q/%d and reads %q/%d after the next Pack", preFiles, preSize, preMeta.Files, preMeta.Size)
			}
		}
	}()
	out.WriterErred = fw.erred
	out.WriteCalls = fw.calls
	out.Written = fw.buf.Len()
	if !arg.NoTrees {
		out.SourceDiff = fsx.Diff(before, fsx.Snapshot(W))
	}
	if err != nil {
		out.Err = err.Error()
		var ise *slug.IllegalSlugError
		out.Illegal = errors.As(err, &ise)
	}
	if meta != nil {
		out.Files, out.Size = meta.Files, meta.Size
	}
	if err != nil || out.Panic != "" {
		return
	}
	data := fw.buf.Bytes()
	out.SlugLen = len(data)
	dec, derr := tarx.Decode(data)
	out.Entries = dec
	if derr != nil {
		out.DecodeErr = derr.Error()
	}
	out.Resolved = map[string]string{}
	out.ParentPhys = map[string]string{}
	out.AbsRel = map[string]string{}
	for _, e := range dec {
		res, _ := fsx.Resolve(filepath.Join(W, "src", e.Name))
		rel, _ := filepath.Rel(W, res)
		out.Resolved[e.Name] = rel
		if fi, err := os.Stat(res); err == nil && fi.Mode().IsRegular() {
			if out.ResolvedPerm == nil {
				out.ResolvedPerm = map[string]uint32{}
			}
			out.ResolvedPerm[e.Name] = uint32(fi.Mode().Perm())
		}
		pres, _ := fsx.Resolve(filepath.Dir(filepath.Join(W, "src", e.Name)))
		prel, _ := filepath.Rel(W, pres)
		out.ParentPhys[e.Name] = prel
		if filepath.IsAbs(e.Linkname) {
			arel, _ := filepath.Rel(W, filepath.Clean(e.Linkname))
			out.AbsRel[e.Name] = arel
		}
		if e.Type == '2' && e.Linkname != "" {
			full := e.Linkname
			if !filepath.IsAbs(full) {
				full = pres + "/" + full // not cleaned: '..' after a link must be applied to what the link names
			}
			full = strings.TrimRight(full, "/")
			dirPart, last := filepath.Split(full)
			var hop string
			if last == "." || last == ".." || last == "" {
				hop, _ = fsx.Resolve(full)
			} else {
				d, _ := fsx.Resolve("/" + strings.Trim(dirPart, "/"))
				if fi, err := os.Stat(d); err != nil || !fi.IsDir() {
					// the directory part does not lead to a directory (missing, a regular file, a link cycle):
					// the link dangles, and where a dangling link "would" lead is not a question with an answer
					continue
				}
				hop = filepath.Join(d, last)
			}
			if out.HopPhys == nil {
				out.HopPhys = map[string]string{}
			}
			hrel, _ := filepath.Rel(W, hop)
			out.HopPhys[e.Name] = hrel
		}
	}
	if arg.Roundtrip {
		dst := filepath.Join(W, "dst")
		os.Mkdir(dst, 0755)
		func() {
			defer func() {
				if r := recover(); r != nil {
					out.UnpackErr = "PANIC: " + fmt.Sprint(r)
				}
			}()
			uerr := slug.Unpack(bytes.NewReader(data), dst)
			if uerr != nil {
				out.UnpackErr = uerr.Error()
				var ise *slug.IllegalSlugError
				out.UnpackIll = errors.As(uerr, &ise)
			}
		}()
		out.DstTree = fsx.Tree(dst)
	}
	return
}

var _ = io.EOF

func init() { core.Register("pack", packHandler) }
