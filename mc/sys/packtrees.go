package sys

import (
	"archive/tar"
	"fmt"
	"path"
	"path/filepath"
	"sort"
	"strings"
	"time"

	"verif/mc/core"
	"verif/mc/fsx"
	"verif/mc/ref"
	"verif/mc/tarx"
)

// Tree enumerations shared by C02 (round trip), C20 (Meta) and C05 (leaks).

func c02Alphabet() []TNode {
	long := strings.Repeat("n", 120)
	p40 := strings.Repeat("p", 40)
	big := strings.Repeat("0123456789", 60)
	return []TNode{
		{Path: "src/a", Kind: "file", Body: "1"},
		{Path: "src/b", Kind: "file", Body: big},
		{Path: "src/empty", Kind: "file"},
		{Path: "src/.hidden", Kind: "file", Body: "h"},
		{Path: "src/-dash", Kind: "file", Body: "d"},
		{Path: "src/sp ace", Kind: "file", Body: "s"},
		{Path: "src/ü", Kind: "file", Body: "u"},
		{Path: "src/" + long, Kind: "file", Body: "L"},
		{Path: "src/" + p40 + "/" + p40 + "/" + p40 + "/" + p40 + "/f", Kind: "file", Body: "P"},
		{Path: "src/d/a", Kind: "file", Body: "da"},
		{Path: "src/d/e/a", Kind: "file", Body: "dea"},
		{Path: "src/d", Kind: "dir"},
		{Path: "src/d/e", Kind: "dir"},
		{Path: "src/emptydir", Kind: "dir"},
		{Path: "src/.dotdir", Kind: "dir"},
		{Path: "src/l", Kind: "link", Target: "a"},
		{Path: "src/l2", Kind: "link", Target: "l"},
		{Path: "src/d/l", Kind: "link", Target: "../a"},
		{Path: "src/ld", Kind: "link", Target: "d"},
		{Path: "src/dang", Kind: "link", Target: "nope"},
		{Path: "src/d/e/l", Kind: "link", Target: "../../b"},
		{Path: "src/ff", Kind: "fifo"},
		{Path: "src/.git/x", Kind: "file", Body: "g"},
		{Path: "src/.terraform/y", Kind: "file", Body: "t"},
		{Path: "src/.terraform/modules/z", Kind: "file", Body: "m"},
		{Path: "src/sub/.git/x", Kind: "file", Body: "sg"},
		{Path: "src/..data", Kind: "file", Body: "dd"},
		{Path: "src/...", Kind: "file", Body: "ddd"},
		{Path: "src/..d/x", Kind: "file", Body: "ddx"},
		{Path: "src/d.x", Kind: "file", Body: "dx"},
		{Path: "src/d-x", Kind: "dir"},
		{Path: "src/ldd", Kind: "link", Target: "..data"},
		{Path: "src/d/ldd", Kind: "link", Target: "../..d/x"},
		{Path: "src/l3", Kind: "link", Target: "..."},
		{Path: "src/lq", Kind: "link", Target: "ld/../a"}, // '..' after a symlinked directory: cleaning it changes the meaning
		{Path: "src/l5", Kind: "link", Target: "./a"},
		// dangling in ways other than "no such file": through a regular file (ENOTDIR), a link to itself and through it (ELOOP)
		{Path: "src/lf", Kind: "link", Target: "a/x"},
		{Path: "src/lself", Kind: "link", Target: "lself"},
		{Path: "src/lc", Kind: "link", Target: "lself/x"},
	}
}

// c05Alphabet: fixed skeleton (always present) + link ops.
func c05Skeleton() []TNode {
	return []TNode{
		{Path: "src/a", Kind: "file", Body: "<SELF>"},
		{Path: "src/d/f", Kind: "file", Body: "<SELF>"},
		{Path: "src-evil/secret", Kind: "file", Body: "<SELF>"},
		{Path: "out/f", Kind: "file", Body: "<SELF>"},
		{Path: "out/dir/g", Kind: "file", Body: "<SELF>"},
		{Path: "out2/h", Kind: "file", Body: "<SELF>"},
		{Path: "src-evil/sub/s", Kind: "file", Body: "<SELF>"},
		// two files whose paths have the same length, one reached by reading "hop/.." as text,
		// the other by following hop first (they differ in mode, so a header taken from the
		// wrong one shows)
		{Path: "out/h", Kind: "file", Body: "<SELF>", Mode: 0600},
		{Path: "ou2/h", Kind: "file", Body: "<SELF>", Mode: 0640},
		{Path: "ou2/sub", Kind: "dir"},
		// a directory two levels down, and an out-of-tree link that leads back to it: reached through
		// src/x -> ../out/back it is packed a second time, one level higher than where it lives
		{Path: "src/d/e/g", Kind: "file", Body: "<SELF>"},
		{Path: "out/back", Kind: "link", Target: "../src/d/e"},
	}
}

func c05Links() []TNode {
	var ns []TNode
	add := func(p string, ts ...string) {
		for _, t := range ts {
			ns = append(ns, TNode{Path: p, Kind: "link", Target: t})
		}
	}
	add("src/l", "..", "a", "d", "d/f", "../out/f", "../out/dir", "../src-evil/secret", "../src-evil", "../src-evil/sub", "<W>/src/a", "<W>/out/f", "<W>/out/dir", "m", "nope", "../nope", "../out2/h", "../out/dir/l", "d/../../out/f")
	add("src/d/l", "../..", "<W>", "../a", "f", "../../out/f", "../../out/dir", "../../src-evil/secret", "../l", "<W>/out2/h", "../out/f")
	add("src/zz", "../a", "../out/f", "a", "../src/a", "../src/d")
	add("src/d/l2", "../../src/a", "<W>/out/./dir/", "<W>/out/dir/../dir")
	add("src-evil/sub/back", "../../src/a", "s")
	add("src/m", "../out/f", "../out/dir", "a", "l", "l/g", "l/f") // l/g, l/f: through the link src/l, no '..' in the text
	add("out/dir/l", "../../src/a", "g", "../f", "../../out2/h", "../../out2", "../../src/d", "<W>/src/a", "<W>/out/dir/g")
	add("src/le", "../ou2/sub")                                                 // an EMPTY directory outside the tree
	add("out/hop", "../ou2/sub")                                                // a directory link outside the tree ...
	add("src/lp", "../out/hop/../h", "../out/hop/..", "../out/hop/../../src/a") // ... and targets that climb out of it again
	add("src/here", ".", "d/..")                                                // a link to the root itself ...
	add("src/lh", "here/../out/f", "here/../src-evil/secret", "here/a")         // ... followed by '..': inside as text, outside when followed
	add("out/dir/k", "../../out/dir/g", "../dir/g", "./g", "../../out/dir")     // stays inside the external directory, by way of its own name
	add("src/x", "../out/back")                                                 // out of the tree and back in, to src/d/e
	add("src/d/e/l", "../../d/e/g", "g", "../f")                                // leaves its directory and re-enters it by name
	return ns
}

type packOpt struct {
	Ignore, Deref, AllowOut bool
	AllowEmpty              bool // an empty allow-list entry
	UID                     int
	Reuse                   bool // the same *Packer packed another tree first
	PreFails                bool // ... and that earlier Pack failed half-way
}

func (o packOpt) String() string {
	s := fmt.Sprintf("ignore=%v deref=%v allow_out=%v uid=%d reuse=%v earlier-pack-failed=%v", o.Ignore, o.Deref, o.AllowOut, o.UID, o.Reuse, o.PreFails)
	if o.AllowEmpty {
		s += " allow-empty-entry=true"
	}
	return s
}

// expected omissions under the built-in rules / a rule file for C02
func c02Expect(nodes []TNode, ignore bool) (rules []ref.GRule) {
	if !ignore {
		return nil
	}
	rules = ref.Builtin()
	for _, n := range nodes {
		if n.Path == "src/.terraformignore" {
			rules = append(rules, ref.ParseRules(n.Body)...)
		}
	}
	return
}

// secOK: "rounded to the second" is rounding to the NEAREST second (what archive/tar does to a
// header's time, halves away from zero). Truncation is not rounding: an implementation that
// truncates some entries (say, the ones that need an extended header) and rounds the others
// returns times a second apart for equal sources.
func secOK(srcSec, srcNsec, got int64) bool {
	nearest := srcSec
	if srcNsec >= 500000000 {
		nearest++
	}
	return got == nearest
}

// checkC02 compares the source tree with the unpacked tree.
func checkC02(arg PackArg, out PackOut) (mism []string, verdict bool) {
	if out.SetupErr != "" || out.Panic != "" {
		return nil, false
	}
	if out.Err != "" {
		// every generated tree is legal (regular files, directories, relative links that stay
		// inside, special files to skip): Pack may only fail for reasons of the environment
		// we built (an unreadable file or directory for uid 65534)
		if strings.Contains(out.Err, "permission denied") {
			return nil, false
		}
		return []string{"Pack fails on a legal tree: " + out.Err}, true
	}
	if out.UnpackErr != "" {
		return []string{"unpack of the produced slug failed: " + out.UnpackErr}, true
	}
	rules := c02Expect(arg.Nodes, arg.Ignore)
	excl := func(p string) bool { return rules != nil && ref.Excluded(rules, p) }
	var keys []string
	for k := range out.SrcTree {
		keys = append(keys, k)
	}
	sort.Strings(keys)
	expectPresent := map[string]bool{}
	for _, k := range keys {
		n := out.SrcTree[k]
		switch n.Type {
		case "file", "link":
			if !excl(k) {
				expectPresent[k] = true
			}
		case "dir":
			if !excl(k) && !excl(k+"/\x00probe") {
				expectPresent[k] = true
			}
		}
	}
	for _, k := range keys {
		s := out.SrcTree[k]
		d, ok := out.DstTree[k]
		if !expectPresent[k] {
			if ok && s.Type != "dir" && d.Type != "dir" {
				mism = append(mism, fmt.Sprintf("%s (%s) should have been omitted but is present", k, s.Type))
			}
			continue
		}
		if !ok {
			mism = append(mism, fmt.Sprintf("missing %s (%s)", k, s.Type))
			continue
		}
		if d.Type != s.Type {
			mism = append(mism, fmt.Sprintf("%s: type %s, want %s", k, d.Type, s.Type))
			continue
		}
		switch s.Type {
		case "file":
			if d.Sha != s.Sha || d.Size != s.Size {
				mism = append(mism, fmt.Sprintf("%s: content differs", k))
			}
		case "link":
			if d.Target != s.Target {
				mism = append(mism, fmt.Sprintf("%s: target %q, want %q", k, d.Target, s.Target))
			}
			continue
		}
		if d.Perm != s.Perm {
			mism = append(mism, fmt.Sprintf("%s: perm %04o, want %04o", k, d.Perm, s.Perm))
		}
		if !secOK(s.MSec, s.MNsec, d.MSec) || d.MNsec != 0 && (d.MSec != s.MSec || d.MNsec != s.MNsec) {
			mism = append(mism, fmt.Sprintf("%s (%s): mtime %d.%09d, source %d.%09d", k, s.Type, d.MSec, d.MNsec, s.MSec, s.MNsec))
		}
	}
	for k, d := range out.DstTree {
		if _, ok := out.SrcTree[k]; !ok {
			mism = append(mism, fmt.Sprintf("unexpected %s (%s)", k, d.Type))
		}
	}
	sort.Strings(mism)
	return mism, true
}

// checkC20: Meta vs decoded slug.
func checkC20(out PackOut) (mism []string, verdict bool) {
	if out.SetupErr != "" || out.Err != "" || out.Panic != "" {
		return nil, false
	}
	if out.EarlierMetaChanged != "" {
		mism = append(mism, "Meta.Files of an earlier call changed: "+out.EarlierMetaChanged)
	}
	if out.DecodeErr != "" {
		return []string{"produced slug does not decode: " + out.DecodeErr}, true
	}
	var names []string
	var bodyBytes, hdrBytes int64
	for _, e := range out.Entries {
		names = append(names, e.Name)
		if e.Type == tar.TypeReg || e.Type == tar.TypeRegA {
			bodyBytes += int64(len(e.Body))
			hdrBytes += e.Size
		}
	}
	if strings.Join(names, "\x00") != strings.Join(out.Files, "\x00") {
		mism = append(mism, fmt.Sprintf("Meta.Files %q != entry names %q", out.Files, names))
	}
	if out.Size != bodyBytes {
		mism = append(mism, fmt.Sprintf("Meta.Size %d != stored content bytes %d", out.Size, bodyBytes))
	}
	if hdrBytes != bodyBytes {
		mism = append(mism, fmt.Sprintf("sum of header sizes %d != stored content bytes %d", hdrBytes, bodyBytes))
	}
	return mism, true
}

// checkC05: provenance, link policy, Unpack accepts.
func checkC05(arg PackArg, out PackOut) (mism []string, verdict bool) {
	if out.SetupErr != "" || out.Panic != "" {
		return nil, false
	}
	// physical classification of the generated links
	type lk struct {
		n        TNode
		physical string // W-relative resolved path
		outside  bool
		allowed  bool
		abs      bool
	}
	nodeAt := map[string]TNode{}
	for _, n := range arg.Nodes {
		nodeAt[n.Path] = n
	}
	if out.Err != "" {
		// (2) without dereferencing an out-of-tree, non-allow-listed link must fail with IllegalSlugError;
		// any other failure is no verdict for this property.
		return nil, false
	}
	allRelative := true
	for _, n := range arg.Nodes {
		if n.Kind == "link" && strings.HasPrefix(n.Target, "<W>") {
			allRelative = false
		}
	}
	for _, e := range out.Entries {
		if cn := path.Clean(e.Name); path.IsAbs(e.Name) || cn == ".." || strings.HasPrefix(cn, "../") {
			mism = append(mism, fmt.Sprintf("entry name %q leaves the archive root", e.Name))
		}
		switch e.Type {
		case tar.TypeReg, tar.TypeRegA:
			prov := e.Body // W-relative path of the file the bytes came from
			own := "src/" + e.Name
			if prov == own || e.Name == ".terraformignore" {
				continue
			}
			if !arg.Deref {
				mism = append(mism, fmt.Sprintf("entry %s holds the content of %s although dereferencing is off", e.Name, prov))
				continue
			}
			if out.Resolved[e.Name] != prov {
				mism = append(mism, fmt.Sprintf("entry %s holds the content of %s but src/%s physically resolves to %s", e.Name, prov, e.Name, out.Resolved[e.Name]))
			} else if pm, ok := out.ResolvedPerm[e.Name]; ok && int64(pm) != e.Mode&0777 {
				mism = append(mism, fmt.Sprintf("entry %s holds the content of %s (mode %04o) but carries mode %04o: header and body come from different files", e.Name, prov, pm, e.Mode&0777))
			}
		case tar.TypeSymlink:
			// the link is "out-of-tree" when its own (one-hop) target, taken from where the
			// link physically lives, is outside src. (A chain that ends outside is fine when
			// the next hop is itself replaced by a copy.)
			physLink := out.Resolved[e.Name] // Resolve() follows the final link too, so redo it for the parent only
			_ = physLink
			parent := out.ParentPhys[e.Name]
			var hop string
			if strings.HasPrefix(e.Linkname, "/") {
				hop = out.AbsRel[e.Name]
			} else {
				hop = path.Clean(path.Join(parent, e.Linkname))
			}
			inside := hop == "src" || strings.HasPrefix(hop, "src/")
			allowed := arg.AllowOut && (hop == "out" || strings.HasPrefix(hop, "out/"))
			if !inside && !allowed {
				mism = append(mism, fmt.Sprintf("link entry %s -> %s stored although its target is outside the source (%s)", e.Name, e.Linkname, hop))
			} else if hp, ok := out.HopPhys[e.Name]; ok {
				// the same question asked the way the kernel follows the target: components before
				// the last one are resolved through the links they name, so '..' after a link climbs
				// from where that link leads
				insideP := hp == "src" || strings.HasPrefix(hp, "src/")
				allowedP := arg.AllowOut && (hp == "out" || strings.HasPrefix(hp, "out/"))
				if !insideP && !allowedP {
					mism = append(mism, fmt.Sprintf("link entry %s -> %s is inside the source as text (%s) but leads outside when followed (%s)", e.Name, e.Linkname, hop, hp))
				}
			}
			if !arg.AllowOut && !path.IsAbs(e.Linkname) {
				c := path.Clean(path.Join(path.Dir(e.Name), e.Linkname))
				if c == ".." || strings.HasPrefix(c, "../") {
					mism = append(mism, fmt.Sprintf("relative link entry %s -> %s points outside the archive root at its own position (%s)", e.Name, e.Linkname, c))
				}
			}
		}
	}
	if !arg.Deref {
		// without dereferencing a link is either stored or makes Pack fail; it is never left out
		have := map[string]bool{}
		for _, e := range out.Entries {
			have[strings.TrimSuffix(e.Name, "/")] = true
		}
		rules := c02Expect(arg.Nodes, arg.Ignore)
		for _, n := range arg.Nodes {
			if n.Kind == "link" && strings.HasPrefix(n.Path, "src/") && arg.Ignore && ref.Excluded(rules, strings.TrimPrefix(n.Path, "src/")) {
				continue // excluded by the tree's own rule file
			}
			if n.Kind == "link" && strings.HasPrefix(n.Path, "src/") && !have[strings.TrimPrefix(n.Path, "src/")] {
				mism = append(mism, fmt.Sprintf("link %s -> %s was left out of the slug although Pack reported success", n.Path, n.Target))
			}
		}
	}
	if !arg.AllowOut && allRelative && arg.Roundtrip && out.UnpackErr != "" {
		mism = append(mism, "Unpack rejects the slug Pack produced from a tree whose links are all relative: "+out.UnpackErr)
	}
	sort.Strings(mism)
	return mism, true
}

// c05MustFail: with dereferencing off and no allow-list, a tree with a link
// whose target is outside src (lexically, from the walk's point of view: only
// links reachable by the walk, i.e. under src) must make Pack fail with IllegalSlugError.
func c05MustFail(arg PackArg) (bool, string) {
	if arg.Deref {
		return false, ""
	}
	rules := c02Expect(arg.Nodes, arg.Ignore)
	for _, n := range arg.Nodes {
		if n.Kind != "link" || !strings.HasPrefix(n.Path, "src/") {
			continue
		}
		if arg.Ignore && ref.Excluded(rules, strings.TrimPrefix(n.Path, "src/")) {
			continue // a link the tree's own rules exclude is never looked at
		}
		var lex string
		if strings.HasPrefix(n.Target, "<W>") {
			lex = path.Clean(strings.TrimPrefix(n.Target, "<W>/"))
		} else {
			lex = path.Clean(path.Join(path.Dir(n.Path), n.Target))
		}
		inside := lex == "src" || strings.HasPrefix(lex, "src/")
		allowed := arg.AllowOut && (lex == "out" || strings.HasPrefix(lex, "out/"))
		if !inside && !allowed {
			return true, n.String()
		}
	}
	return false, ""
}

func classOf(ms []string) string {
	set := map[string]bool{}
	for _, m := range ms {
		switch {
		case strings.HasPrefix(m, "missing"):
			if strings.Contains(m, "(dir)") {
				set["missing-dir"] = true
			} else {
				set["missing"] = true
			}
		case strings.HasPrefix(m, "unexpected"):
			set["unexpected"] = true
		case strings.Contains(m, "should have been omitted"):
			set["not-omitted"] = true
		case strings.Contains(m, "Pack fails on a legal tree"):
			set["pack-fails-on-legal-tree"] = true
		case strings.Contains(m, "unpack of the produced slug failed"), strings.Contains(m, "Unpack rejects"):
			set["unpack-rejects"] = true
		case strings.Contains(m, ": perm"):
			set["perm"] = true
		case strings.Contains(m, "mtime"):
			set["mtime"] = true
		case strings.Contains(m, "content differs"):
			set["content"] = true
		case strings.Contains(m, ": target"):
			set["target"] = true
		case strings.Contains(m, ": type"):
			set["type"] = true
		case strings.Contains(m, "Meta.Files"):
			set["files"] = true
		case strings.Contains(m, "Meta.Size"):
			set["size"] = true
		case strings.Contains(m, "header sizes"):
			set["header-size"] = true
		case strings.Contains(m, "although dereferencing is off"):
			set["foreign-content-without-deref"] = true
		case strings.Contains(m, "header and body come from different files"):
			set["header-from-another-file"] = true
		case strings.Contains(m, "physically resolves to"):
			set["wrong-provenance"] = true
		case strings.Contains(m, "leaves the archive root"):
			set["entry-name-leaves-root"] = true
		case strings.Contains(m, "was left out of the slug"):
			set["link-left-out"] = true
		case strings.Contains(m, "but leads outside when followed"):
			set["link-inside-as-text-outside-when-followed"] = true
		case strings.Contains(m, "stored although its target is outside"):
			set["outside-link-stored"] = true
		case strings.Contains(m, "points outside the archive root"):
			set["link-leaves-archive-root"] = true
		default:
			set["other"] = true
		}
	}
	var ks []string
	for k := range set {
		ks = append(ks, k)
	}
	sort.Strings(ks)
	return strings.Join(ks, "+")
}

// RunPackTrees decides C02, C20 or C05 over enumerated trees.
func RunPackTrees(id, tier string) int {
	rep := core.NewReport(id, tier)
	thorough := tier == "thorough"
	deadline := time.Now().Add(100 * time.Second)
	if thorough {
		deadline = time.Now().Add(25 * time.Minute)
	}
	pools := map[int]*core.Pool{}
	pool := func(uid int) *core.Pool {
		if p, ok := pools[uid]; ok {
			return p
		}
		p := core.NewPool(uid)
		pools[uid] = p
		return p
	}
	var planStats []map[string]any

	judge := func(arg PackArg, out PackOut, opt packOpt) {
		rep.Evaluations++
		desc := fmt.Sprintf("opts{%s} tree [%s] pack_err=%q", opt, TreeString(arg.Nodes), out.Err)
		if out.SetupErr != "" {
			core.Fatalf("tree setup failed: %s (%s)", out.SetupErr, desc)
		}
		if out.Panic != "" {
			rep.Outcome("panic")
			rep.NoVerdict++
			return
		}
		var mism []string
		var verdict bool
		switch id {
		case "C02":
			mism, verdict = checkC02(arg, out)
		case "C20":
			mism, verdict = checkC20(out)
		case "C05":
			mism, verdict = checkC05(arg, out)
			if must, why := c05MustFail(arg); must {
				verdict = true
				if out.Err == "" {
					mism = append(mism, "Pack succeeded although the tree holds an out-of-tree link and dereferencing is off: "+why)
				} else if !out.Illegal {
					// another error may legitimately come first (e.g. unreadable); only flag when the message is the policy one
					if strings.Contains(out.Err, "external target") {
						mism = append(mism, "policy rejection is not an IllegalSlugError: "+out.Err)
					}
				}
			}
		}
		if !verdict {
			rep.NoVerdict++
			rep.Outcome("no-verdict(pack-error)")
			return
		}
		if out.Err != "" {
			rep.Outcome("pack-refused-as-required")
		} else {
			rep.Outcome("packed-and-compared")
		}
		canon := fmt.Sprint(out.Files, out.Size)
		for _, e := range out.Entries {
			canon += fmt.Sprintf("|%s:%c:%s:%o:%d", e.Name, e.Type, e.Linkname, e.Mode, e.MSec)
		}
		rep.Nontrivial(canon + opt.String())
		if len(mism) > 0 {
			rep.Violation("slug.Pack/"+classOf(mism), desc+" :: "+strings.Join(mism, "; "), "pack", arg)
		}
	}

	runSet := func(name string, trees [][]TNode, opts []packOpt) {
		if time.Now().After(deadline) {
			rep.Exhaustive = false
			return
		}
		n0 := rep.Evaluations
		for _, opt := range opts {
			opt := opt
			args := make([]PackArg, len(trees))
			pool(opt.UID).Map("pack", len(trees), func(i int) any {
				args[i] = PackArg{Nodes: trees[i], Ignore: opt.Ignore, Deref: opt.Deref, AllowOut: opt.AllowOut, AllowEmpty: opt.AllowEmpty, Roundtrip: id != "C20", UID: opt.UID, Reuse: opt.Reuse, PreFails: opt.PreFails}
				return args[i]
			}, func(i int, r core.Result) {
				var out PackOut
				if r.Hung || r.Crashed {
					rep.Evaluations++
					rep.Outcome("hang-or-crash")
					rep.Violation("slug.Pack/hang-or-crash", fmt.Sprintf("opts{%s} tree [%s] hung=%v crashed=%v %s", opt, TreeString(args[i].Nodes), r.Hung, r.Crashed, firstLines(r.Stderr, 3)), "pack", args[i])
					return
				}
				core.MustOut(r, &out)
				judge(args[i], out, opt)
				if i%97 == 0 {
					rep.Sample(fmt.Sprintf("opts{%s} tree [%s] => files=%q size=%d err=%q", opt, TreeString(args[i].Nodes), out.Files, out.Size, out.Err))
				}
			})
		}
		rep.States += len(trees)
		rep.Transitions += rep.Evaluations - n0
		planStats = append(planStats, map[string]any{"set": name, "trees": len(trees), "option_sets": len(opts), "executions": rep.Evaluations - n0})
		fmt.Printf("  set %s: trees=%d option_sets=%d executions=%d\n", name, len(trees), len(opts), rep.Evaluations-n0)
	}

	combos := func(alpha []TNode, k int, fixed []TNode) [][]TNode {
		var out [][]TNode
		exploreCombos(len(alpha), k, time.Time{}, func(hists [][]int, handle func(int, string, bool)) {
			for i, h := range hists {
				t := append([]TNode{}, fixed...)
				for _, o := range h {
					t = append(t, alpha[o])
				}
				out = append(out, t)
				handle(i, "", false)
			}
		})
		return append([][]TNode{append([]TNode{}, fixed...)}, out...)
	}

	allOpts := []packOpt{}
	for _, uid := range []int{0, 65534} {
		for _, ig := range []bool{false, true} {
			for _, de := range []bool{false, true} {
				allOpts = append(allOpts, packOpt{Ignore: ig, Deref: de, UID: uid})
			}
		}
	}
	rootOpts := allOpts[:4]
	reuseOpts := []packOpt{{Reuse: true}, {Deref: true, Reuse: true}, {Ignore: true, Deref: true, Reuse: true}, {Reuse: true, PreFails: true}, {Deref: true, Reuse: true, PreFails: true}}

	if id == "C02" || id == "C20" {
		alpha := c02Alphabet()
		k := 3
		if thorough {
			k = 5
		}
		trees := combos(alpha, k, nil)
		if thorough {
			runSet(fmt.Sprintf("trees<=%d-nodes/default-attrs", k), trees, allOpts)
		} else {
			runSet(fmt.Sprintf("trees<=%d-nodes/default-attrs", k), trees, rootOpts)
			runSet("trees<=2-nodes/uid65534", combos(alpha, 2, nil), allOpts[4:])
		}
		// attribute deviations (E2): one (quick) / two (thorough) nodes carry a non-default mode or mtime fraction
		base := tarx.BaseTime.UnixNano()
		devs := []TNode{{Mode: -1}, {Mode: 0444}, {Mode: 0600}, {Mode: 0755}, {Mode: 0777}, {Mode: 0500},
			{MTime: base + 400e6}, {MTime: base + 500e6}, {MTime: base + 600e6}, {MTime: base + 86400e9 + 999e6},
			{MTime: -5e9 - 250e6}, {MTime: 1e9}, {MTime: 8589934592e9 + 5e8}} // before the epoch; second 1; beyond the 33-bit octal field of a ustar header
		devAlpha := []TNode{alpha[0], alpha[9], alpha[11], alpha[13], alpha[15], alpha[2], alpha[6], alpha[7]} // a, d/a, d, emptydir, l, empty, ü, 120-byte name (both need extended headers)
		var devTrees [][]TNode
		small := combos(devAlpha, 2, nil)
		if thorough {
			small = combos(devAlpha, 3, nil)
		}
		for _, t := range small {
			for i := range t {
				if t[i].Kind == "link" {
					continue
				}
				for _, d := range devs {
					tt := append([]TNode{}, t...)
					tt[i].Mode, tt[i].MTime = d.Mode, d.MTime
					devTrees = append(devTrees, tt)
					if thorough {
						for j := i + 1; j < len(t); j++ {
							if t[j].Kind == "link" {
								continue
							}
							for _, d2 := range []TNode{{Mode: 0500}, {Mode: 0444}, {MTime: base + 500e6}} {
								t3 := append([]TNode{}, tt...)
								t3[j].Mode, t3[j].MTime = d2.Mode, d2.MTime
								devTrees = append(devTrees, t3)
							}
						}
					}
				}
			}
		}
		runSet("attribute-deviations", devTrees, allOpts)
		runSet("trees<=2-nodes/packer-reused", combos(alpha, 2, nil), reuseOpts)
	}
	if id == "C05" || id == "C20" {
		links := c05Links()
		k := 2
		if thorough {
			k = 4
			if id == "C20" {
				k = 3
			}
		}
		var trees [][]TNode
		for _, t := range combos(links, k, c05Skeleton()) {
			// drop combinations with two links at the same path
			seen := map[string]bool{}
			ok := true
			for _, n := range t {
				if seen[n.Path] {
					ok = false
				}
				seen[n.Path] = true
			}
			if ok {
				trees = append(trees, t)
			}
		}
		var opts []packOpt
		for _, ig := range []bool{false, true} {
			for _, de := range []bool{false, true} {
				for _, al := range []bool{false, true} {
					opts = append(opts, packOpt{Ignore: ig, Deref: de, AllowOut: al})
				}
			}
		}
		if !thorough {
			opts = []packOpt{{}, {Deref: true}, {AllowOut: true}, {Deref: true, AllowOut: true}, {Ignore: true, Deref: true}}
		}
		opts = append(opts, packOpt{AllowEmpty: true})
		runSet(fmt.Sprintf("skeleton+<=%d-links", k), trees, opts)
		var t1 [][]TNode
		for _, t := range trees {
			if len(t) <= len(c05Skeleton())+2 {
				t1 = append(t1, t)
			}
		}
		runSet("skeleton+<=2-links/packer-reused", t1, []packOpt{{Reuse: true}, {Deref: true, Reuse: true}})
		// the tree's own rule file excludes the link src/l: what other links reach THROUGH it must still be judged
		var tl [][]TNode
		for _, t := range t1 {
			hasL := false
			for _, n := range t {
				if n.Path == "src/l" {
					hasL = true
				}
			}
			if hasL {
				tl = append(tl, append(append([]TNode{}, t...), TNode{Path: "src/.terraformignore", Kind: "file", Body: "/l\n"}))
			}
		}
		runSet("skeleton+<=2-links, src/l excluded by the rule file", tl, []packOpt{{Ignore: true}, {Ignore: true, Deref: true}, {Ignore: true, AllowOut: true}})
		// relative allow-list entries are relative to the root of EACH operation (also on a reused Packer)
		relNodes := []TNode{{Path: "one/proj/a", Kind: "file", Body: "<SELF>"}, {Path: "one/proj/link", Kind: "link", Target: "../shared/f"}, {Path: "one/shared/f", Kind: "file", Body: "<SELF>"},
			{Path: "two/proj/a", Kind: "file", Body: "<SELF>"}, {Path: "two/proj/link", Kind: "link", Target: "../../one/shared/f"}, {Path: "two/shared/g", Kind: "file", Body: "<SELF>"}, {Path: "two/proj/ok", Kind: "link", Target: "../shared/g"}}
		type relCase struct {
			src, pre string
			mustFail bool
		}
		var relCases []relCase
		for _, pre := range []string{"", "<W>/one/proj", "<W>/two/proj"} {
			relCases = append(relCases, relCase{"<W>/one/proj", pre, false}, relCase{"<W>/two/proj", pre, true})
		}
		relArgs := make([]PackArg, len(relCases))
		pool(0).Map("pack", len(relCases), func(i int) any {
			relArgs[i] = PackArg{Nodes: relNodes, Src: relCases[i].src, AllowRel: "../shared", Reuse: relCases[i].pre != "", PreSrc: relCases[i].pre}
			return relArgs[i]
		}, func(i int, r core.Result) {
			var out PackOut
			core.MustOut(r, &out)
			rep.Evaluations++
			c := relCases[i]
			desc := fmt.Sprintf("AllowSymlinkTarget(\"../shared\") pack %s after packing %q with the same Packer :: err=%q", c.src, c.pre, out.Err)
			rep.Nontrivial("relallow" + desc)
			switch {
			case c.mustFail && out.Err == "":
				rep.Violation("slug.Pack/relative-allow-list-entry-not-relative-to-this-root", desc+" — a link to ../../one/shared/f is outside two/proj and ../shared means two/shared here, yet Pack stored it", "pack", relArgs[i])
			case c.mustFail && !out.Illegal:
				rep.Violation("slug.Pack/policy-rejection-not-illegal-slug-error", desc, "pack", relArgs[i])
			case !c.mustFail && out.Err != "":
				rep.Violation("slug.Pack/allow-listed-link-refused", desc, "pack", relArgs[i])
			}
		})
		rep.States += len(relCases)
		planStats = append(planStats, map[string]any{"set": "relative-allow-list × reused packer", "runs": len(relCases)})
	}
	if id == "C20" {
		// files large enough to leave any small-file fast path (> 1 MiB), in the tree and behind a dereferenced link
		bigTrees := [][]TNode{
			{{Path: "src/a", Kind: "file", Body: "aaaa"}, {Path: "src/big", Kind: "file", Body: "<NOISE:1600000>"}},
			{{Path: "src/l", Kind: "link", Target: "../out/big"}, {Path: "out/big", Kind: "file", Body: "<NOISE:1048577>"}, {Path: "src/exact", Kind: "file", Body: "<NOISE:1048576>"}},
			{{Path: "src/ld", Kind: "link", Target: "../out/dir"}, {Path: "out/dir/big", Kind: "file", Body: "<NOISE:1100000>"}},
		}
		var bjobs []PackArg
		for _, t := range bigTrees {
			for _, de := range []bool{false, true} {
				bjobs = append(bjobs, PackArg{Nodes: t, Deref: de, AllowOut: true, NoTrees: true})
			}
		}
		pool(0).Map("pack", len(bjobs), func(i int) any { return bjobs[i] }, func(i int, r core.Result) {
			var out PackOut
			core.MustOut(r, &out)
			judge(bjobs[i], out, packOpt{Deref: bjobs[i].Deref, AllowOut: true})
		})
		rep.States += len(bjobs)
		planStats = append(planStats, map[string]any{"set": "files above 1 MiB", "runs": len(bjobs)})
		// an ordinary user meets something unreadable part-way through the walk (in the tree, or inside a
		// dereferenced outside directory after entries of it were already written): Pack may refuse, but
		// a Pack that reports success must return Meta matching the slug
		lockedTrees := [][]TNode{
			{{Path: "src/main.tf", Kind: "file", Body: "m"}, {Path: "src/shared", Kind: "link", Target: "../out/shared"}, {Path: "out/shared/a.txt", Kind: "file", Body: "aaaa"}, {Path: "out/shared/zlocked/x", Kind: "file", Body: "x"}, {Path: "out/shared/zlocked", Kind: "dir", Mode: -1}},
			{{Path: "src/main.tf", Kind: "file", Body: "m"}, {Path: "src/shared", Kind: "link", Target: "../out/shared"}, {Path: "out/shared/a.txt", Kind: "file", Body: "aaaa"}, {Path: "out/shared/zfile", Kind: "file", Body: "zz", Mode: -1}},
			{{Path: "src/a", Kind: "file", Body: "aaaa"}, {Path: "src/zlocked/x", Kind: "file", Body: "x"}, {Path: "src/zlocked", Kind: "dir", Mode: -1}},
			{{Path: "src/a", Kind: "file", Body: "aaaa"}, {Path: "src/zfile", Kind: "file", Body: "zz", Mode: -1}},
			{{Path: "src/d/l", Kind: "link", Target: "../../out/shared"}, {Path: "src/z", Kind: "file", Body: "z"}, {Path: "out/shared/a.txt", Kind: "file", Body: "aaaa"}, {Path: "out/shared/b/c", Kind: "file", Body: "c"}, {Path: "out/shared/b", Kind: "dir", Mode: -1}},
			{{Path: "src/l", Kind: "link", Target: "../out/locked"}, {Path: "src/z", Kind: "file", Body: "z"}, {Path: "out/locked/x", Kind: "file", Body: "x"}, {Path: "out/locked", Kind: "dir", Mode: -1}},
		}
		var ljobs []PackArg
		for _, t := range lockedTrees {
			for _, de := range []bool{false, true} {
				for _, ig := range []bool{false, true} {
					for _, ao := range []bool{false, true} { // an allow-listed target is stored as a link, any other is copied when dereferencing
						ljobs = append(ljobs, PackArg{Nodes: t, Deref: de, Ignore: ig, AllowOut: ao, NoTrees: true, UID: 65534})
					}
				}
			}
		}
		lok := 0
		pool(65534).Map("pack", len(ljobs), func(i int) any { return ljobs[i] }, func(i int, r core.Result) {
			var out PackOut
			core.MustOut(r, &out)
			if out.Err == "" {
				lok++
			}
			judge(ljobs[i], out, packOpt{Deref: ljobs[i].Deref, Ignore: ljobs[i].Ignore, AllowOut: ljobs[i].AllowOut, UID: 65534})
		})
		rep.States += len(ljobs)
		planStats = append(planStats, map[string]any{"set": "unreadable entries met part-way, uid 65534", "runs": len(ljobs), "pack_succeeded": lok})
		// E2: the tree changes while Pack runs. One deviation per run: at the k-th call of
		// the output writer one regular file is cut or extended. Whenever Pack still
		// reports success, the returned Meta must describe the slug it wrote.
		touchTrees := [][]TNode{
			{{Path: "src/a", Kind: "file", Body: "aaaa"}},
			{{Path: "src/a", Kind: "file", Body: "aaaa"}, {Path: "src/b", Kind: "file", Body: "bbbbbb"}},
			{{Path: "src/l", Kind: "link", Target: "../out/f"}, {Path: "out/f", Kind: "file", Body: "ffff"}, {Path: "src/z", Kind: "file", Body: "zz"}},
			{{Path: "src/big", Kind: "file", Body: "<NOISE:300000>"}, {Path: "src/z", Kind: "file", Body: "zz"}},
			{{Path: "src/a", Kind: "file", Body: "aaaa"}, {Path: "src/big", Kind: "file", Body: "<NOISE:300000>"}},
		}
		var tjobs []PackArg
		for _, t := range touchTrees {
			base := PackArg{Nodes: t, Deref: true, NoTrees: true}
			var probe PackOut
			pool(0).Map("pack", 1, func(int) any { return base }, func(_ int, r core.Result) { core.MustOut(r, &probe) })
			for k := 1; k <= probe.WriteCalls; k++ {
				if !thorough && k > 8 && k%64 != 0 {
					continue // quick: the first 8 writer calls and every 64th after them
				}
				for _, n := range t {
					if n.Kind != "file" {
						continue
					}
					for _, size := range []int64{0, 1, 7, 400000} {
						a := base
						a.TouchAt, a.TouchPath, a.TouchSize = k, n.Path, size
						tjobs = append(tjobs, a)
					}
				}
			}
		}
		hit, succeeded := 0, 0
		pool(0).Map("pack", len(tjobs), func(i int) any { return tjobs[i] }, func(i int, r core.Result) {
			rep.Evaluations++
			a := tjobs[i]
			desc := fmt.Sprintf("tree [%s] deref=true; at writer call %d file %s is resized to %d bytes", TreeString(a.Nodes), a.TouchAt, a.TouchPath, a.TouchSize)
			if r.Hung || r.Crashed {
				rep.Violation("slug.Pack/hang-or-crash", desc, "pack", a)
				return
			}
			var out PackOut
			core.MustOut(r, &out)
			if out.Touched {
				hit++
			}
			mism, verdict := checkC20(out)
			if !verdict {
				rep.NoVerdict++
				rep.Outcome("resized-while-packing:pack-error")
				return
			}
			succeeded++
			rep.Outcome("resized-while-packing:packed-and-compared")
			rep.Nontrivial(fmt.Sprintf("touch:%d:%s:%d:%d", a.TouchAt, a.TouchPath, a.TouchSize, out.Size))
			if len(mism) > 0 {
				rep.Violation("slug.Pack/resized-while-packing/"+classOf(mism), desc+" :: "+strings.Join(mism, "; "), "pack", a)
			}
		})
		rep.States += len(tjobs)
		planStats = append(planStats, map[string]any{"set": "file resized at every writer call (E2, one deviation)", "runs": len(tjobs), "deviation_reached": hit, "pack_succeeded": succeeded})
	}
	rep.Extra["sets"] = planStats
	switch id {
	case "C02":
		rep.Rule = "every tree of <=k nodes over a 26-node alphabet (names: long, non-ASCII, space, dot, dash; empty file/dir; links sibling/parent/dir/dangling/chained; fifo; .git/.terraform content) × {ignore,deref} × {root,uid 65534}, plus single/double attribute deviations (modes 0000-0777, mtime fractions); real Pack then real Unpack; recursive comparison of source and unpacked tree. Non-trivial = pack succeeded and trees were compared; distinct by decoded slug."
	case "C20":
		rep.Rule = "C02 trees ∪ C05 trees × option sets; returned Meta compared with an independent decode of the slug. Non-trivial = pack succeeded; distinct by decoded slug. Plus E2: on 5 trees (one with a 300 kB incompressible file so that output is written while it is read) one regular file is resized to {0,1,7,400000} bytes at every call of the output writer (quick: calls 1-8 and every 64th); a Pack that still succeeds must return matching Meta. Plus 6 trees with an unreadable directory or file met part-way through the walk (in the tree and inside a dereferenced outside directory) packed as uid 65534."
	case "C05":
		rep.Rule = "fixed skeleton (content of every file = its own path, so provenance is readable from the bytes) + every set of <=k links over 33 (position,target) pairs × {deref} × {allow-list} × {ignore}; oracles: provenance of every regular entry, no stored link that physically resolves outside, relative link entries stay inside the archive root, Unpack accepts the result, out-of-tree link without deref ⇒ IllegalSlugError."
	}
	rep.Assumptions = []string{"mtime 'rounded to the second' = nearest second (or the exact source time, unrounded)", "a Pack error other than the policy rejection (e.g. unreadable file for uid 65534) is no verdict", "directories excluded by a trailing-/ rule may or may not exist after Unpack"}
	return rep.Finish()
}

var _ = filepath.Join
var _ = fsx.Inside
