package sys

import (
	"encoding/json"
	"fmt"
	"os"
	"regexp"
	"sort"
	"strings"
	"time"

	"verif/mc/core"
)

// Engine E4: the iteration order of Go maps is chosen by the runtime; a result
// that depends on it differs from run to run. cmd/instrmap rewrites every
// range-over-map statement of the library (found by type, so statements a change
// introduces are covered too) to ask the harness for the order. The explorer
// runs a task with the canonical order everywhere, then deviates at one (bound 1)
// or two (bound 2) executed statements, taking every order on offer there: all
// n! orders up to 4 keys, canonical/reverse/all rotations beyond.

type MapOrdArg struct {
	Sys     string          `json:"sys"`
	Arg     json.RawMessage `json:"arg"`
	Choices []int           `json:"choices,omitempty"`
}

type MapPoint struct {
	Site  string `json:"site"`
	N     int    `json:"n"`
	Alts  int    `json:"alts"`
	Chose int    `json:"chose"`
}

type MapOrdOut struct {
	Out    json.RawMessage `json:"out,omitempty"`
	Err    string          `json:"err,omitempty"`
	Panic  string          `json:"panic,omitempty"`
	Points []MapPoint      `json:"points,omitempty"`
	Bad    string          `json:"bad,omitempty"`
}

func mapBin() (string, string) {
	if e := os.Getenv("VERIF_MAP_ERR"); e != "" {
		return "", e
	}
	b := os.Getenv("VERIF_MAP_BIN")
	if b == "" {
		return "", "VERIF_MAP_BIN not set (map-order binary not built)"
	}
	return b, ""
}

type mapOrdStats struct {
	Tasks       int            `json:"tasks"`
	Runs        int            `json:"runs"`
	Points      int            `json:"choice_points_seen"`
	Sites       map[string]int `json:"sites"` // site -> times it was a choice point
	Bound       int            `json:"deviation_bound_completed"`
	TasksNoMaps int            `json:"tasks_without_a_choice_point"`
	Differing   int            `json:"tasks_whose_result_depends_on_the_order"`
	Capped      bool           `json:"time_budget_reached"` // a level was cut short: Bound is the last level completed in full
}

// mapOrdBudget bounds the time one exploreMapOrders call may start new work in (0 = unbounded).
// Levels run in chunks; when the budget is spent no further chunk is started, the statistics say
// which level was completed in full, and the caller reports exhaustive=false.
var mapOrdBudget time.Duration

// exploreMapOrders runs every task under every deviation of at most `bound`
// range statements. canon projects a handler result onto what must not depend
// on the order; report is called once per task whose projections differ.
func exploreMapOrders(uid int, sysName string, args []any, bound int, canon func(i int, raw json.RawMessage) string, report func(i int, choices []int, base, got string, arg MapOrdArg), st *mapOrdStats) {
	bin, e := mapBin()
	if e != "" {
		core.Fatalf("map-order engine unavailable: %s", e)
	}
	pool := core.NewPool(uid)
	pool.Binary = bin
	if st.Sites == nil {
		st.Sites = map[string]int{}
	}
	st.Bound = bound
	st.Tasks += len(args)
	raws := make([]json.RawMessage, len(args))
	for i, a := range args {
		b, err := json.Marshal(a)
		if err != nil {
			core.Fatalf("marshal: %v", err)
		}
		raws[i] = b
	}
	type run struct {
		task    int
		choices []int
		devs    int
		from    int // first point index that may still deviate
	}
	frontier := make([]run, len(args))
	for i := range args {
		frontier[i] = run{task: i}
	}
	base := make([]string, len(args))
	reported := map[int]bool{}
	started := time.Now()
	const chunk = 20000
	for level := 0; level <= bound && len(frontier) > 0; level++ {
		var next []run
		whole := frontier
		for off := 0; off < len(whole); off += chunk {
			if level > 0 && mapOrdBudget > 0 && time.Since(started) > mapOrdBudget {
				st.Capped = true
				st.Bound = level - 1
				return
			}
			end := off + chunk
			if end > len(whole) {
				end = len(whole)
			}
			frontier := whole[off:end]
			margs := make([]MapOrdArg, len(frontier))
			pool.Map("mapord", len(frontier), func(k int) any {
				f := frontier[k]
				margs[k] = MapOrdArg{Sys: sysName, Arg: raws[f.task], Choices: f.choices}
				return margs[k]
			}, func(k int, r core.Result) {
				st.Runs++
				f := frontier[k]
				if r.Hung || r.Crashed {
					if !reported[f.task] {
						reported[f.task] = true
						report(f.task, f.choices, base[f.task], "worker hung or crashed: "+firstLines(r.Stderr, 2), margs[k])
					}
					return
				}
				var out MapOrdOut
				core.MustOut(r, &out)
				if out.Bad != "" {
					core.Fatalf("map-order replay diverged: %s (task %d choices %v)", out.Bad, f.task, f.choices)
				}
				got := ""
				switch {
				case out.Panic != "":
					got = "PANIC " + out.Panic
				case out.Err != "":
					got = "HANDLER-ERROR " + out.Err
				default:
					got = canon(f.task, out.Out)
				}
				if level == 0 {
					base[f.task] = got
					if len(out.Points) == 0 {
						st.TasksNoMaps++
					}
					for _, p := range out.Points {
						st.Points++
						st.Sites[p.Site]++
					}
				} else if got != base[f.task] && !reported[f.task] {
					reported[f.task] = true
					st.Differing++
					report(f.task, f.choices, base[f.task], got, margs[k])
				}
				if f.devs < bound {
					for pi := f.from; pi < len(out.Points); pi++ {
						for alt := 0; alt < out.Points[pi].Alts; alt++ {
							if alt == out.Points[pi].Chose {
								continue
							}
							ch := make([]int, pi+1)
							for q := 0; q < pi; q++ {
								ch[q] = out.Points[q].Chose
							}
							ch[pi] = alt
							next = append(next, run{task: f.task, choices: ch, devs: f.devs + 1, from: pi + 1})
						}
					}
				}
			})
		}
		frontier = next
	}
}

func (s *mapOrdStats) summary() map[string]any {
	var sites []string
	for k, v := range s.Sites {
		sites = append(sites, fmt.Sprintf("%s×%d", k, v))
	}
	sort.Strings(sites)
	return map[string]any{"part": "map-iteration-orders (E4)", "tasks": s.Tasks, "runs": s.Runs, "choice_points_in_baseline_runs": s.Points,
		"tasks_without_a_choice_point": s.TasksNoMaps, "deviation_bound_completed": s.Bound, "time_budget_reached": s.Capped, "range_over_map_sites_reached": strings.Join(sites, ", "),
		"orders_per_point": "all n! up to 4 keys; canonical, reverse and every rotation beyond"}
}

// firstDiff shows where two canonical strings part.
func firstDiff(a, b string) string {
	i := 0
	for i < len(a) && i < len(b) && a[i] == b[i] {
		i++
	}
	lo := i - 60
	if lo < 0 {
		lo = 0
	}
	cut := func(s string) string {
		hi := i + 120
		if hi > len(s) {
			hi = len(s)
		}
		if lo > len(s) {
			return ""
		}
		return s[lo:hi]
	}
	return fmt.Sprintf("canonical …%q… vs …%q…", cut(a), cut(b))
}

var arenaNameRE = regexp.MustCompile(`verif-[0-9]+/w[0-9]+-[0-9]+|w[0-9]+-[0-9]+`)

// canonArena removes per-task scratch directory names from a raw result.
func canonArena(raw json.RawMessage) string {
	return arenaNameRE.ReplaceAllString(string(raw), "<ARENA>")
}
