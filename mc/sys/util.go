package sys

import (
	"time"

	"verif/mc/explore"
)

func exploreBFS(ops []int, depth int, dedup bool, deadline time.Time, exec explore.Exec) explore.Stats {
	return explore.BFS(func(int) []int { return ops }, depth, dedup, deadline, exec)
}

// Runners maps property id -> runner(tier) exit code.
var Runners = map[string]func(tier string) int{
	"C01": func(t string) int { return RunUnpackSafety("C01", t) },
	"C04": func(t string) int { return RunUnpackSafety("C04", t) },
	"C15": RunC15,
}
