package sys

import (
	"strings"
	"time"

	"verif/mc/explore"
)

func exploreBFS(ops []int, depth int, dedup bool, deadline time.Time, exec explore.Exec) explore.Stats {
	return explore.BFS(func([]int) []int { return ops }, depth, dedup, deadline, exec)
}

// exploreCombos enumerates subsets (as ascending index lists) of 0..n-1 up to size depth.
func exploreCombos(n, depth int, deadline time.Time, exec explore.Exec) explore.Stats {
	return explore.BFS(func(h []int) []int {
		start := 0
		if len(h) > 0 {
			start = h[len(h)-1] + 1
		}
		var ops []int
		for i := start; i < n; i++ {
			ops = append(ops, i)
		}
		return ops
	}, depth, false, deadline, exec)
}

func firstLines(s string, n int) string {
	ls := strings.Split(s, "\n")
	if len(ls) > n {
		ls = ls[:n]
	}
	return strings.Join(ls, " | ")
}

// Runners maps property id -> runner(tier) exit code.
var Runners = map[string]func(tier string) int{
	"C01": func(t string) int { return RunUnpackSafety("C01", t) },
	"C04": func(t string) int { return RunUnpackSafety("C04", t) },
	"C15": RunC15,
	"C03": RunC03,
	"C16": RunC16,
	"C12": RunC12,
	"C18": RunC18,
	"C09": RunC09,
	"C10": RunC10,
	"C17": RunC17,
	"C13": RunC13,
	"C08": func(t string) int { return RunBundleWorlds("C08", t) },
	"C14": func(t string) int { return RunBundleWorlds("C14", t) },
	"C06": RunC06,
	"C07": RunC07,
	"C11": RunC11,
	"C19": RunC19,
	"C02": func(t string) int { return RunPackTrees("C02", t) },
	"C20": func(t string) int { return RunPackTrees("C20", t) },
	"C05": func(t string) int { return RunPackTrees("C05", t) },
}

var timeZero time.Time

func pathDir(p string) string {
	if i := strings.LastIndex(p, "/"); i >= 0 {
		return p[:i]
	}
	return "."
}

func pathJoin(a, b string) string {
	out, _ := stackResolve(strings.Split(strings.TrimPrefix(a, "./"), "/"), b)
	if a == "." {
		out, _ = stackResolve(nil, b)
	}
	return strings.Join(out, "/")
}
