package sys

import (
	"strings"
	"time"

	"verif/mc/explore"
)

func exploreBFS(ops []int, depth int, dedup bool, deadline time.Time, exec explore.Exec) explore.Stats {
	return explore.BFS(func([]int) []int { return ops }, depth, dedup, deadline, exec)
}

// exploreCombos enumerates subsets (as ascending index lists) of 0..n-1 up to size depth.
func exploreCombos(n, depth int, deadline time.Time, exec explore.Exec) explore.Stats {
	return explore.BFS(func(h []int) []int {
		start := 0
		if len(h) > 0 {
			start = h[len(h)-1] + 1
		}
		var ops []int
		for i := start; i < n; i++ {
			ops = append(ops, i)
		}
		return ops
	}, depth, false, deadline, exec)
}

func firstLines(s string, n int) string {
	ls := strings.Split(s, "\n")
	if len(ls) > n {
		ls = ls[:n]
	}
	return strings.Join(ls, " | ")
}

// Runners maps property id -> runner(tier) exit code.
var Runners = map[string]func(tier string) int{
	"C01": func(t string) int { return RunUnpackSafety("C01", t) },
	"C04": func(t string) int { return RunUnpackSafety("C04", t) },
	"C15": RunC15,
	"C03": RunC03,
	"C06": RunC06,
	"C07": RunC07,
	"C11": RunC11,
	"C19": RunC19,
	"C02": func(t string) int { return RunPackTrees("C02", t) },
	"C20": func(t string) int { return RunPackTrees("C20", t) },
	"C05": func(t string) int { return RunPackTrees("C05", t) },
}
