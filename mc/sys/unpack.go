package sys

import (
	"archive/tar"
	"bytes"
	"crypto/sha256"
	"encoding/hex"
	"encoding/json"
	"errors"
	"fmt"
	"os"
	"path/filepath"
	"sort"
	"strings"
	"time"

	slug "github.com/hashicorp/go-slug"

	"verif/mc/core"
	"verif/mc/fsx"
	"verif/mc/tarx"
)

// ---------------------------------------------------------------------------
// worker side: one Unpack execution in a fresh arena

type UnpackArg struct {
	Entries    []tarx.Entry `json:"entries"`
	Dst        string       `json:"dst,omitempty"`         // spelling of dst: "" clean, "slash", "dot"
	Allow      bool         `json:"allow,omitempty"`       // AllowSymlinkTarget(<P>/allowed)
	AllowEmpty bool         `json:"allow_empty,omitempty"` // AllowSymlinkTarget("")
	AllowRel   string       `json:"allow_rel,omitempty"`   // AllowSymlinkTarget(<this relative entry>): relative to the destination of EACH operation
	Pre        string       `json:"pre,omitempty"`         // the same Packer was used before: "fail" = an Unpack into <P>/pre/dst2 that failed half-way, "link" = one that met an allow-listed link
	Cut        int          `json:"cut"`                   // -1: whole stream; else stream ends/fails at this offset
	Mode       string       `json:"mode,omitempty"`        // "eof" | "err"
	Chunk      int          `json:"chunk,omitempty"`
	Format     int          `json:"format,omitempty"`
	Benign     bool         `json:"benign,omitempty"` // also run the variant whose last (link) entry has a harmless target
	Prepop     bool         `json:"prepop,omitempty"` // dst already holds content: pre -> .. (link), predir/, prefile (0444), prelink -> ../dst-evil/t
}

type LinkFact struct {
	Rel       string `json:"rel"`
	Target    string `json:"target"`
	Resolved  string `json:"resolved"`
	Inside    bool   `json:"inside"`
	LexInside bool   `json:"lex_inside"`
	Allowed   bool   `json:"allowed"`
	Loop      bool   `json:"loop,omitempty"`
}

type UnpackOut struct {
	BuildErr string     `json:"build_err,omitempty"`
	Err      string     `json:"err,omitempty"`
	Illegal  bool       `json:"illegal,omitempty"`
	Panic    string     `json:"panic,omitempty"`
	Outside  []string   `json:"outside,omitempty"` // differences outside dst (C01 facts)
	Links    []LinkFact `json:"links,omitempty"`
	DstHash  string     `json:"dst_hash"`
	DstCanon string     `json:"dst_canon,omitempty"`
	GzLen    int        `json:"gz_len"`
	BenignOK *bool      `json:"benign_ok,omitempty"`
	Touched  bool       `json:"touched"` // dst is non-empty afterwards
}

type unpackArena struct {
	A, P, Dst, Allowed string
}

var oldTime = time.Date(2000, 1, 1, 0, 0, 0, 0, time.UTC)

func mkfile(p, content string, mode os.FileMode) {
	if err := os.MkdirAll(filepath.Dir(p), 0755); err != nil {
		panic("INTERNAL mkfile: " + err.Error())
	}
	if err := os.WriteFile(p, []byte(content), 0644); err != nil {
		panic("INTERNAL mkfile: " + err.Error())
	}
	os.Chmod(p, mode)
	os.Chtimes(p, oldTime, oldTime)
}

func makeUnpackArena() unpackArena {
	base := core.NewArena()
	a := unpackArena{A: filepath.Join(base, "A")}
	a.P = filepath.Join(a.A, "L1", "L2", "p")
	a.Dst = filepath.Join(a.P, "dst")
	a.Allowed = filepath.Join(a.P, "allowed")
	mkfile(filepath.Join(a.A, "secret"), "S0", 0644)
	mkfile(filepath.Join(a.A, "L1", "secret"), "S1", 0644)
	mkfile(filepath.Join(a.A, "L1", "L2", "secret"), "S2", 0644)
	mkfile(filepath.Join(a.P, "secret"), "S3", 0644)
	mkfile(filepath.Join(a.P, "dst-evil", "t"), "T", 0444)
	mkfile(filepath.Join(a.P, "dst-evil", "keep"), "K", 0644)
	mkfile(filepath.Join(a.Allowed, "f"), "F", 0644)
	mkfile(filepath.Join(a.P, "pre", "allowed", "f"), "PF", 0644)
	os.MkdirAll(filepath.Join(a.P, "pre", "dst2"), 0755)
	os.MkdirAll(a.Dst, 0755)
	for _, d := range []string{a.Allowed, filepath.Join(a.P, "dst-evil"), a.P, filepath.Join(a.A, "L1", "L2"), filepath.Join(a.A, "L1"), a.A} {
		os.Chtimes(d, oldTime, oldTime)
	}
	return a
}

func (a unpackArena) subst(s string) string {
	s = strings.ReplaceAll(s, "<DSTREL>", strings.TrimPrefix(a.Dst, "/"))
	s = strings.ReplaceAll(s, "<DST>", a.Dst)
	s = strings.ReplaceAll(s, "<P>", a.P)
	s = strings.ReplaceAll(s, "<A>", a.A)
	return s
}

func (a unpackArena) spell(kind string) string {
	switch kind {
	case "slash":
		return a.Dst + "/"
	case "dot":
		return a.P + "/./dst"
	case "dotdot":
		return a.P + "/dst-evil/../dst"
	case "rel":
		return "dst" // relative to the working directory <P> (the caller changes into it)
	case "link":
		return a.P + "/dstlink" // a symlink to the destination directory, made by the caller before the snapshot
	}
	return a.Dst
}

func runUnpackOnce(a unpackArena, arg UnpackArg, entries []tarx.Entry) (out UnpackOut) {
	es := make([]tarx.Entry, len(entries))
	for i, e := range entries {
		e.Name = a.subst(e.Name)
		e.Target = a.subst(e.Target)
		es[i] = e
	}
	data, err := tarx.Build(es, tar.Format(arg.Format))
	if err != nil {
		out.BuildErr = err.Error()
		return
	}
	out.GzLen = len(data)
	if arg.Prepop {
		os.Symlink("..", filepath.Join(a.Dst, "pre"))
		os.Symlink("../dst-evil/t", filepath.Join(a.Dst, "prelink"))
		os.MkdirAll(filepath.Join(a.Dst, "predir"), 0755)
		mkfile(filepath.Join(a.Dst, "prefile"), "P", 0444)
	}
	switch arg.Dst {
	case "rel":
		if old, err := os.Getwd(); err == nil {
			defer os.Chdir(old)
		}
		if err := os.Chdir(a.P); err != nil {
			panic("INTERNAL chdir: " + err.Error())
		}
	case "link":
		if err := os.Symlink("dst", a.P+"/dstlink"); err != nil {
			panic("INTERNAL symlink: " + err.Error())
		}
	}
	before := fsx.Snapshot(a.A, a.Dst)
	var opts []slug.PackerOption
	if arg.Allow {
		opts = append(opts, slug.AllowSymlinkTarget(a.Allowed))
	}
	if arg.AllowEmpty {
		opts = append(opts, slug.AllowSymlinkTarget(""))
	}
	if arg.AllowRel != "" {
		opts = append(opts, slug.AllowSymlinkTarget(arg.AllowRel))
	}
	p, err := slug.NewPacker(opts...)
	if err != nil {
		panic("INTERNAL NewPacker: " + err.Error())
	}
	if arg.Pre != "" {
		// history on the same Packer, into another destination (<P>/pre/dst2)
		pre := []tarx.Entry{{Name: "d/", Kind: "dir", Mode: 0777}, {Name: "l", Kind: "link", Target: "../allowed/f"}, {Name: "esc", Kind: "link", Target: "../../secret"}, {Name: "d/f", Kind: "reg", Body: "0123456789"}}
		if arg.Pre == "link" {
			pre = pre[:2] // succeeds when "../allowed" is allow-listed (it names <P>/pre/allowed there)
		}
		pdata, perr := tarx.Build(pre, tar.FormatUSTAR)
		if perr != nil {
			panic("INTERNAL pre archive: " + perr.Error())
		}
		func() {
			defer func() { recover() }()
			p.Unpack(bytes.NewReader(pdata), filepath.Join(a.P, "pre", "dst2"))
		}()
		os.Chmod(filepath.Join(a.P, "pre", "dst2", "d"), 0700) // whatever is done to it from now on is the next call's doing
		os.Chtimes(filepath.Join(a.P, "pre", "dst2", "d"), oldTime, oldTime)
		before = fsx.Snapshot(a.A, a.Dst)
	}
	rd := &tarx.FaultReader{Data: data, Cut: arg.Cut, Mode: arg.Mode, Chunk: arg.Chunk}
	func() {
		defer func() {
			if r := recover(); r != nil {
				out.Panic = fmt.Sprint(r)
			}
		}()
		err = p.Unpack(rd, a.spell(arg.Dst))
	}()
	if err != nil {
		out.Err = err.Error()
		var ise *slug.IllegalSlugError
		out.Illegal = errors.As(err, &ise)
	}
	after := fsx.Snapshot(a.A, a.Dst)
	out.Outside = fsx.Diff(before, after)
	// links under dst
	realDst := a.Dst
	filepath.Walk(a.Dst, func(p string, fi os.FileInfo, err error) error {
		if err != nil || fi == nil {
			return nil
		}
		if fi.Mode()&os.ModeSymlink == 0 {
			return nil
		}
		t, _ := os.Readlink(p)
		if arg.Prepop && (filepath.Base(p) == "pre" || filepath.Base(p) == "prelink") && filepath.Dir(p) == a.Dst {
			return nil // was there before Unpack ran
		}
		var lex string
		if filepath.IsAbs(t) {
			lex = filepath.Clean(t)
		} else {
			lex = filepath.Join(filepath.Dir(p), t)
		}
		res, loop := fsx.Resolve(p)
		rel, _ := filepath.Rel(a.Dst, p)
		rr, _ := filepath.Rel(a.A, res)
		lf := LinkFact{Rel: rel, Target: strings.ReplaceAll(strings.ReplaceAll(t, a.Dst, "<DST>"), a.P, "<P>"), Resolved: rr, Inside: fsx.Inside(realDst, res),
			LexInside: fsx.Inside(realDst, lex), Loop: loop}
		if arg.Allow && (fsx.Inside(a.Allowed, res) || fsx.Inside(a.Allowed, lex)) {
			lf.Allowed = true
		}
		if arg.AllowRel != "" {
			// a relative entry names a place relative to THIS destination
			ar := filepath.Join(a.Dst, arg.AllowRel)
			if fsx.Inside(ar, res) || fsx.Inside(ar, lex) {
				lf.Allowed = true
			}
		}
		out.Links = append(out.Links, lf)
		return nil
	})
	tree := fsx.Tree(a.Dst)
	out.Touched = len(tree) > 0
	canon := fsx.Canon(tree, false)
	canon = strings.ReplaceAll(strings.ReplaceAll(canon, a.Dst, "<DST>"), a.P, "<P>")
	h := sha256.Sum256([]byte(canon))
	out.DstHash = hex.EncodeToString(h[:10])
	if len(canon) < 2000 {
		out.DstCanon = canon
	}
	return
}

func unpackHandler(raw json.RawMessage) (any, error) {
	var arg UnpackArg
	if err := json.Unmarshal(raw, &arg); err != nil {
		return nil, err
	}
	a := makeUnpackArena()
	out := runUnpackOnce(a, arg, arg.Entries)
	core.RemoveArena(filepath.Dir(a.A))
	if arg.Benign && len(arg.Entries) > 0 {
		es := append([]tarx.Entry{}, arg.Entries...)
		last := es[len(es)-1]
		last.Target = "zz-harmless"
		es[len(es)-1] = last
		b := makeUnpackArena()
		bo := runUnpackOnce(b, arg, es)
		core.RemoveArena(filepath.Dir(b.A))
		ok := bo.Err == "" && bo.Panic == "" && bo.BuildErr == ""
		out.BenignOK = &ok
	}
	return out, nil
}

func init() { core.Register("unpack", unpackHandler) }

// ---------------------------------------------------------------------------
// master side: alphabet

// lexInsideDst decides on the text alone whether a link entry named name with
// target stays inside dst ("<DST>" stands for the absolute destination).
func lexEscapes(name, target string) bool {
	const D = "/D/dst"
	n := strings.TrimPrefix(name, "/")
	t := strings.ReplaceAll(strings.ReplaceAll(strings.ReplaceAll(strings.ReplaceAll(target, "<DSTREL>", "D/dst"), "<DST>", D), "<P>", "/D"), "<A>", "/")
	var lex string
	if filepath.IsAbs(t) {
		lex = filepath.Clean(t)
	} else {
		lex = filepath.Join(filepath.Dir(filepath.Join(D, n)), t)
	}
	return !(lex == D || strings.HasPrefix(lex, D+"/"))
}

func unpackAlphabet(full bool) []tarx.Entry {
	var es []tarx.Entry
	regNames := []string{"a", "a/b", "y", "y/x", "a/up", "/abs", "../dst-evil/x", "../dst-evil/t", "a/../../dst-evil/x", "../secret", ".", "nx/../y/x", "nx/../y", "/../dst-evil/x", "a//b", "./y/./x", "..a", ".../x", "pre/x", "pre", "prelink", "prefile", "predir/x", "pre/dst-evil/x"}
	dirNames := []string{"a/", "a", "y/", "a/b/", "a/up/", "../dst-evil/", "../dst-evil/x/", ".", "nx/../y/", "nx/../y/x/", "pre/", "pre/sub/", "prelink"}
	linkNames := []string{"a", "y", "a/up", "a/b", "y/x", "/abs", "/a/l", "../dst-evil/x", "nx/../y/x", "y/", "a/up/.", "y/a/up"}
	targets := []string{"a", "a/b", "..", ".", "../..", "../../<DSTREL>/a", "../<DSTREL>/a", "a/up/..", "a/up/../secret", "../dst-evil", "../dst-evil/t", "../secret", "<DST>/a", "<P>/secret", "../allowed/f", "../../allowed/f", "../pre/allowed/f"}
	otherKinds := []tarx.Entry{{Name: "../dst-evil/sub/g", Kind: "xglobal"}, {Name: "y/sub/g", Kind: "xglobal"}, {Name: "g", Kind: "xglobal"},
		{Name: "../dst-evil/ff", Kind: "fifo"}, {Name: "../dst-evil/sub/hl", Kind: "hard", Target: "../secret"}, {Name: "hl", Kind: "hard", Target: "../secret"}}
	if !full {
		regNames = []string{"a", "a/b", "y", "y/x", "../dst-evil/x", "../dst-evil/t", "a/../../dst-evil/x", "nx/../y/x", "/../dst-evil/x", "pre/x", "prelink", "prefile"}
		dirNames = []string{"a/", "y", "../dst-evil/", "a/up/", "pre/"}
		linkNames = []string{"a", "y", "a/up", "y/a/up", "/a/l", "/abs"}
		targets = []string{"a", "..", ".", "../..", "../../<DSTREL>/a", "../<DSTREL>/a", "a/up/..", "a/up/../secret", "../dst-evil", "../dst-evil/t", "<P>/secret", "../allowed/f", "../../allowed/f", "../pre/allowed/f"}
		otherKinds = otherKinds[:2]
	}
	for _, n := range regNames {
		es = append(es, tarx.Entry{Name: n, Kind: "reg", Body: "X"})
	}
	for _, n := range dirNames {
		es = append(es, tarx.Entry{Name: n, Kind: "dir"})
	}
	for _, n := range linkNames {
		for _, t := range targets {
			es = append(es, tarx.Entry{Name: n, Kind: "link", Target: t})
		}
	}
	es = append(es, otherKinds...)
	// targets spelled with backslashes: one odd file name on this platform; judged and created as the same text
	es = append(es, tarx.Entry{Name: "a/up", Kind: "link", Target: "..\\..\\secret"}, tarx.Entry{Name: "y", Kind: "link", Target: "\\..\\secret"})
	// inconsistent headers: the type flag says one thing, the file-type bits of the mode field another
	incons := []tarx.Entry{
		{Name: "y", Kind: "link", Target: "a/up/..", Raw: 040711}, {Name: "a/up", Kind: "link", Target: "..", Raw: 040755},
		{Name: "y", Kind: "reg", Body: "X", Raw: 040644}, {Name: "y/", Kind: "dir", Raw: 0120777}, {Name: "y", Kind: "reg", Body: "X", Raw: 0120644},
		{Name: "../dst-evil/t", Kind: "link", Target: "a", Raw: 040700},
	}
	if !full {
		incons = append(incons[:2:2], incons[4]) // + a regular entry whose mode field carries symlink type bits
	}
	es = append(es, incons...)
	// hard-link entries naming an earlier entry (unsupported today: must stay refused, or at least harmless)
	es = append(es, tarx.Entry{Name: "h", Kind: "hard", Target: "a/up"}, tarx.Entry{Name: "h", Kind: "hard", Target: "y"})
	return es
}

type unpackCfg struct {
	Dst        string
	Allow      bool
	AllowEmpty bool // AllowSymlinkTarget(""): must allow nothing
	AllowRel   string
	Pre        string
	UID        int
	Chunk      int
	Prepop     bool
}

func (c unpackCfg) String() string {
	return fmt.Sprintf("dst=%q allow=%v allow-empty-entry=%v allow-relative=%q packer-used-before=%q uid=%d chunk=%d prepopulated=%v", c.Dst, c.Allow, c.AllowEmpty, c.AllowRel, c.Pre, c.UID, c.Chunk, c.Prepop)
}

// classifyOutside gives the attribution signature of an outside change from
// facts computable from the archive text and the parent state alone.
func classifyOutside(hist []tarx.Entry, diff []string) string {
	last := hist[len(hist)-1]
	name := strings.TrimPrefix(last.Name, "/")
	const D = "/D/dst"
	lex := filepath.Join(D, name)
	nameLeaves := !(lex == D || strings.HasPrefix(lex, D+"/"))
	sibling := strings.HasPrefix(lex, D) && nameLeaves
	// was the final component (or a prefix) created as a link by an earlier entry?
	clean := strings.TrimSuffix(filepath.Clean(name), "/")
	finalIsLink, prefixIsLink := false, false
	for _, e := range hist[:len(hist)-1] {
		if e.Kind != "link" {
			continue
		}
		en := filepath.Clean(strings.TrimPrefix(e.Name, "/"))
		if en == clean {
			finalIsLink = true
		} else if strings.HasPrefix(clean, en+"/") {
			prefixIsLink = true
		}
	}
	var parts []string
	parts = append(parts, "last="+last.Kind)
	if sibling {
		parts = append(parts, "name-leaves-dst-via-sibling-prefix")
	} else if nameLeaves {
		parts = append(parts, "name-leaves-dst")
	}
	if finalIsLink {
		parts = append(parts, "final-component-is-earlier-link")
	}
	if prefixIsLink {
		parts = append(parts, "prefix-component-is-earlier-link")
	}
	kinds := map[string]bool{}
	for _, d := range diff {
		kinds[strings.SplitN(d, " ", 2)[0]] = true
	}
	var ks []string
	for k := range kinds {
		ks = append(ks, k)
	}
	sort.Strings(ks)
	parts = append(parts, "effect="+strings.Join(ks, "+"))
	return "slug.Unpack/" + strings.Join(parts, "/")
}

// RunUnpackSafety decides C01 (outside unchanged) or C04 (links resolve inside).
func RunUnpackSafety(id, tier string) int {
	rep := core.NewReport(id, tier)
	thorough := tier == "thorough"
	budget := 100 * time.Second
	if thorough {
		budget = 25 * time.Minute
	}
	deadline := time.Now().Add(budget)

	type plan struct {
		cfg   unpackCfg
		full  bool
		depth int
		dedup bool
	}
	var plans []plan
	if thorough {
		plans = []plan{
			{unpackCfg{}, true, 3, true},
			{unpackCfg{UID: 65534}, true, 3, true},
			{unpackCfg{Dst: "slash"}, true, 2, true},
			{unpackCfg{Dst: "slash"}, false, 3, true},
			{unpackCfg{Dst: "dot"}, true, 2, true},
			{unpackCfg{Dst: "dotdot"}, true, 2, true},
			{unpackCfg{Dst: "rel"}, true, 2, true},
			{unpackCfg{Dst: "link"}, true, 2, true},
			{unpackCfg{Dst: "rel"}, false, 3, true},
			{unpackCfg{Dst: "link"}, false, 3, true},
			{unpackCfg{Allow: true}, true, 2, true},
			{unpackCfg{AllowEmpty: true}, true, 2, true},
			{unpackCfg{AllowRel: "../allowed"}, true, 2, true},
			{unpackCfg{AllowRel: "../../allowed"}, false, 2, true},
			{unpackCfg{AllowRel: "../allowed", Pre: "link"}, true, 2, true},
			{unpackCfg{Pre: "fail"}, true, 2, true},
			{unpackCfg{Allow: true, UID: 65534}, false, 3, true},
			{unpackCfg{Chunk: 1}, true, 2, true},
			{unpackCfg{Prepop: true}, true, 2, true},
			{unpackCfg{Prepop: true, UID: 65534}, false, 3, true},
			{unpackCfg{}, false, 3, false}, // differential check of the dedup abstraction
			{unpackCfg{}, false, 4, true},
		}
	} else {
		plans = []plan{
			{unpackCfg{}, true, 2, true},
			{unpackCfg{UID: 65534}, true, 2, true},
			{unpackCfg{Dst: "slash"}, false, 2, true},
			{unpackCfg{Allow: true}, false, 2, true},
			{unpackCfg{AllowEmpty: true}, false, 2, true},
			{unpackCfg{AllowRel: "../allowed"}, false, 2, true},
			{unpackCfg{AllowRel: "../../allowed"}, false, 2, true},
			{unpackCfg{AllowRel: "../allowed", Pre: "link"}, false, 2, true},
			{unpackCfg{Pre: "fail"}, false, 2, true},
			{unpackCfg{Prepop: true}, false, 2, true},
			{unpackCfg{}, false, 3, true},
			{unpackCfg{Dst: "slash"}, false, 3, true},
			{unpackCfg{Dst: "rel"}, false, 2, true},
			{unpackCfg{Dst: "link"}, false, 2, true},
		}
	}
	var planStats []map[string]any
	pools := map[int]*core.Pool{}
	getPool := func(uid int) *core.Pool {
		if p, ok := pools[uid]; ok {
			return p
		}
		p := core.NewPool(uid)
		pools[uid] = p
		return p
	}

	check := func(cfg unpackCfg, hist []tarx.Entry, out UnpackOut, arg UnpackArg) {
		rep.Evaluations++
		if out.BuildErr != "" {
			rep.NoVerdict++
			rep.Outcome("tar-writer-refused")
			return
		}
		switch {
		case out.Panic != "":
			rep.Outcome("panic")
		case out.Illegal:
			rep.Outcome("illegal-slug-error")
		case out.Err != "":
			rep.Outcome("other-error")
		default:
			rep.Outcome("success")
		}
		if out.Touched {
			rep.Nontrivial(out.DstHash + fmt.Sprint(out.Illegal, out.Err == ""))
		}
		desc := fmt.Sprintf("cfg{%s} archive [%s] err=%q", cfg, tarx.Names(hist), out.Err)
		if id == "C01" {
			if len(out.Outside) > 0 {
				rep.Violation(classifyOutside(hist, out.Outside), desc+" outside changes: "+strings.Join(out.Outside, "; "), "unpack", arg)
			}
			return
		}
		// C04
		for _, l := range out.Links {
			if l.Inside || l.Allowed {
				continue
			}
			sig := "slug.Unpack/link-left-resolving-outside"
			if l.LexInside {
				sig += "/target-inside-as-text-outside-when-followed"
			} else if strings.HasPrefix(filepath.Clean(filepath.Join("/D/dst", filepath.Dir(l.Rel), strings.ReplaceAll(l.Target, "<DST>", "/D/dst"))), "/D/dst") && !filepath.IsAbs(l.Target) {
				sig += "/sibling-sharing-dst-name-prefix"
			} else if strings.HasPrefix(l.Target, "<DST>") {
				sig += "/absolute-sibling-sharing-dst-name-prefix"
			}
			rep.Violation(sig, desc+fmt.Sprintf(" link %s -> %s resolves to %s", l.Rel, l.Target, l.Resolved), "unpack", arg)
		}
		if out.BenignOK != nil && *out.BenignOK {
			last := hist[len(hist)-1]
			if out.Err == "" && out.Panic == "" {
				// accepted although escaping on its face; only a violation if the link is really left behind
				// (reported above through Links). Nothing more to demand here.
			} else if !out.Illegal {
				rep.Violation("slug.Unpack/escaping-link-refused-without-illegal-slug-error", desc+fmt.Sprintf(" entry %s", last), "unpack", arg)
			}
		}
	}

	for _, pl := range plans {
		if time.Now().After(deadline) {
			rep.Exhaustive = false
			break
		}
		alpha := unpackAlphabet(pl.full)
		pool := getPool(pl.cfg.UID)
		ops := make([]int, len(alpha))
		for i := range ops {
			ops[i] = i
		}
		st := exploreBFS(ops, pl.depth, pl.dedup, deadline, func(hists [][]int, handle func(i int, key string, terminal bool)) {
			args := make([]UnpackArg, len(hists))
			pool.Map("unpack", len(hists), func(i int) any {
				es := make([]tarx.Entry, len(hists[i]))
				for j, o := range hists[i] {
					es[j] = alpha[o]
				}
				last := es[len(es)-1]
				args[i] = UnpackArg{Entries: es, Dst: pl.cfg.Dst, Allow: pl.cfg.Allow, AllowEmpty: pl.cfg.AllowEmpty, AllowRel: pl.cfg.AllowRel, Pre: pl.cfg.Pre, Cut: -1, Chunk: pl.cfg.Chunk, Prepop: pl.cfg.Prepop,
					Benign: id == "C04" && last.Kind == "link" && lexEscapes(last.Name, last.Target) && !(pl.cfg.Allow && strings.Contains(last.Target, "allowed"))}
				return args[i]
			}, func(i int, r core.Result) {
				var out UnpackOut
				core.MustOut(r, &out)
				check(pl.cfg, args[i].Entries, out, args[i])
				if len(hists[i]) <= 2 {
					rep.Sample(fmt.Sprintf("cfg{%s} [%s] => err=%q dst=%s", pl.cfg, tarx.Names(args[i].Entries), out.Err, strings.ReplaceAll(out.DstCanon, "\n", ",")))
				}
				// state key: post-run dst tree + ordered accepted directory entries + outside state
				var dirs []string
				for _, e := range args[i].Entries {
					if e.Kind == "dir" {
						dirs = append(dirs, e.Name)
					}
				}
				key := out.DstHash + "|" + strings.Join(dirs, ",") + "|" + fmt.Sprint(len(out.Outside))
				terminal := out.Err != "" || out.Panic != "" || out.BuildErr != ""
				if terminal {
					key = "" // terminal states are never expanded; count each
				}
				handle(i, key, terminal)
			})
		})
		rep.States += st.States
		rep.Transitions += st.Transitions
		if st.Capped {
			rep.Exhaustive = false
		}
		planStats = append(planStats, map[string]any{"cfg": pl.cfg.String(), "alphabet": len(alpha), "depth_completed": st.Depth, "depth_planned": pl.depth,
			"dedup": pl.dedup, "states": st.States, "transitions": st.Transitions, "terminal": st.Terminal, "frontier": st.Frontier, "capped": st.Capped})
		fmt.Printf("  plan cfg{%s} alphabet=%d depth=%d dedup=%v: states=%d transitions=%d terminal=%d frontier=%v capped=%v\n", pl.cfg, len(alpha), st.Depth, pl.dedup, st.States, st.Transitions, st.Terminal, st.Frontier, st.Capped)
	}

	// fault dimension: every read offset of every short archive (E2, one deviation)
	{
		alpha := unpackAlphabet(thorough)
		var archives [][]tarx.Entry
		for _, e := range alpha {
			archives = append(archives, []tarx.Entry{e})
		}
		if thorough {
			core := unpackAlphabet(false)
			for _, e1 := range core {
				for _, e2 := range core {
					archives = append(archives, []tarx.Entry{e1, e2})
				}
			}
		}
		pool := getPool(0)
		// first learn stream lengths
		lens := make([]int, len(archives))
		pool.Map("unpack", len(archives), func(i int) any { return UnpackArg{Entries: archives[i], Cut: -1} }, func(i int, r core.Result) {
			var out UnpackOut
			core.MustOut(r, &out)
			lens[i] = out.GzLen
		})
		type fc struct {
			a    int
			cut  int
			mode string
		}
		var cases []fc
		for i, n := range lens {
			for c := 0; c < n; c++ {
				cases = append(cases, fc{i, c, "eof"}, fc{i, c, "err"})
			}
		}
		faultRuns := 0
		if time.Now().After(deadline) {
			rep.Exhaustive = false
		} else {
			pool.Map("unpack", len(cases), func(i int) any {
				return UnpackArg{Entries: archives[cases[i].a], Cut: cases[i].cut, Mode: cases[i].mode}
			}, func(i int, r core.Result) {
				var out UnpackOut
				core.MustOut(r, &out)
				faultRuns++
				arg := UnpackArg{Entries: archives[cases[i].a], Cut: cases[i].cut, Mode: cases[i].mode}
				check(unpackCfg{}, arg.Entries, out, arg)
			})
		}
		rep.Transitions += faultRuns
		rep.Extra["fault_positions_explored"] = faultRuns
		rep.Extra["fault_archives"] = len(archives)
	}

	rep.Extra["plans"] = planStats
	rep.Extra["worker_crashes"] = pools[0].Crashes
	rep.Rule = "BFS over archives as entry sequences (alphabet printed per plan); every prefix is executed by the real slug.Unpack in a fresh arena; " +
		"state = (post-run dst tree, ordered directory entries); error states are terminal. Non-trivial = Unpack touched dst; distinct by (dst tree, result class). " +
		"Fault dimension: every read offset × {EOF, error} of short archives."
	rep.Assumptions = []string{"dst is an absolute path (documented precondition)", "tmpfs semantics of /dev/shm; Go runtime; archive/tar and compress/gzip writers used to build inputs",
		"dedup key argument: Unpack's only cross-entry state is the file system below dst plus the list of directory entries seen (DESIGN.md §4 C01)"}
	return rep.Finish()
}
