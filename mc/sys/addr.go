package sys

import (
	"crypto/sha256"
	"encoding/json"
	"fmt"
	"net/url"
	"path"
	"runtime"
	"sort"
	"strings"
	"sync"
	"time"

	"github.com/apparentlymart/go-versions/versions"
	"github.com/hashicorp/go-slug/sourceaddrs"
	regaddr "github.com/hashicorp/terraform-registry-address"

	"verif/mc/core"
)

// ---------------------------------------------------------------------------
// address values as BFS states

type aval struct {
	kind string // local remote registry final rpkg mpkg
	v    any
	how  []string // provenance: "parse:<parser>:<string>" then API operations (replayable, see addrPathHandler)
}

func urlKey(u *url.URL) string {
	c := *u
	user := "<nil>"
	if c.User != nil {
		user = c.User.String()
	}
	c.User = nil
	return fmt.Sprintf("%#v user=%s", c, user)
}

func (a aval) key() string {
	switch v := a.v.(type) {
	case sourceaddrs.LocalSource:
		return "local|" + v.RelativePath()
	case sourceaddrs.RemoteSource:
		return "remote|" + v.Package().SourceType() + "|" + urlKey(v.Package().URL()) + "|" + v.SubPath()
	case sourceaddrs.RegistrySource:
		return fmt.Sprintf("registry|%#v|%s", v.Package(), v.SubPath())
	case sourceaddrs.RegistrySourceFinal:
		return fmt.Sprintf("final|%#v|%s|%#v", v.Package(), v.SubPath(), v.SelectedVersion())
	case sourceaddrs.RemotePackage:
		return "rpkg|" + v.SourceType() + "|" + urlKey(v.URL())
	case regaddr.ModulePackage:
		return fmt.Sprintf("mpkg|%#v", v)
	}
	panic("aval kind")
}

func (a aval) str() string { return a.v.(fmt.Stringer).String() }

func mk(v any) aval {
	switch v.(type) {
	case sourceaddrs.LocalSource:
		return aval{kind: "local", v: v}
	case sourceaddrs.RemoteSource:
		return aval{kind: "remote", v: v}
	case sourceaddrs.RegistrySource:
		return aval{kind: "registry", v: v}
	case sourceaddrs.RegistrySourceFinal:
		return aval{kind: "final", v: v}
	case sourceaddrs.RemotePackage:
		return aval{kind: "rpkg", v: v}
	case regaddr.ModulePackage:
		return aval{kind: "mpkg", v: v}
	}
	panic(fmt.Sprintf("mk %T", v))
}

func guard(f func()) (p string) {
	defer func() {
		if r := recover(); r != nil {
			p = fmt.Sprint(r)
		}
	}()
	f()
	return ""
}

// checkRoundTrip evaluates the C06 oracle on one value; returns violation (sig, desc) pairs.
func checkRoundTrip(a aval) (out [][2]string) {
	var s string
	if p := guard(func() { s = a.str() }); p != "" {
		return [][2]string{{"String/panic", fmt.Sprintf("%s value %s: String() panics: %s", a.kind, a.key(), p)}}
	}
	bad := func(sig, f string, args ...any) {
		out = append(out, [2]string{sig, fmt.Sprintf("%s value {%s} prints %q: ", a.kind, a.key(), s) + fmt.Sprintf(f, args...)})
	}
	var back any
	var err error
	var generic []any // results of the generic classifiers
	var gerr []error
	p := guard(func() {
		switch a.kind {
		case "local":
			back, err = sourceaddrs.ParseLocalSource(s)
			g1, e1 := sourceaddrs.ParseSource(s)
			g2, e2 := sourceaddrs.ParseFinalSource(s)
			generic, gerr = []any{g1, g2}, []error{e1, e2}
		case "remote":
			back, err = sourceaddrs.ParseRemoteSource(s)
			g1, e1 := sourceaddrs.ParseSource(s)
			g2, e2 := sourceaddrs.ParseFinalSource(s)
			generic, gerr = []any{g1, g2}, []error{e1, e2}
		case "registry":
			back, err = sourceaddrs.ParseRegistrySource(s)
			g1, e1 := sourceaddrs.ParseSource(s)
			generic, gerr = []any{g1}, []error{e1}
		case "final":
			back, err = sourceaddrs.ParseFinalRegistrySource(s)
			g1, e1 := sourceaddrs.ParseFinalSource(s)
			generic, gerr = []any{g1}, []error{e1}
		case "rpkg":
			back, err = sourceaddrs.ParseRemotePackage(s)
		case "mpkg":
			back, err = sourceaddrs.ParseRegistryPackage(s)
		}
	})
	if p != "" {
		bad("parse/panic", "parser panics: %s", p)
		return
	}
	if err != nil {
		bad("print-does-not-parse", "does not parse back as %s: %v", a.kind, err)
		return
	}
	if back != a.v {
		bad("print-parses-to-different-value", "parses back to a different value {%s}", mk(back).key())
	} else if s2 := mk(back).str(); s2 != s {
		bad("print-not-idempotent", "prints %q the second time", s2)
	}
	for i, g := range generic {
		if gerr[i] != nil {
			bad("generic-parser-rejects", "generic parser #%d rejects it: %v", i, gerr[i])
		} else if g != a.v {
			bad("generic-parser-classifies-differently", "generic parser #%d yields %T {%s}", i, g, mk(g).key())
		}
	}
	return
}

var relSet = []string{"./.github/w", "../.terraform/m", "../../..cache", "./...", "./a?b", "./", "../", "./b", "../b", "../../b", "./b/c", "../..", "./b/../c", "../../../x", "./é", "./a b", "./a@b", "./x#y", "./%41", "./b/."}

var subSet = []string{"", "m", "m/n", "a b", "é", "a@1.0.0", "x#y", "%41", "a?b"}

func versionsSet() []versions.Version {
	var vs []versions.Version
	for _, s := range []string{"1.0.0", "1.0.0-beta", "1.0.0+meta", "0.0.0"} {
		vs = append(vs, versions.MustParseVersion(s))
	}
	return vs
}

// successors applies every API operation to a value.
func successors(a aval, remotes []sourceaddrs.RemoteSource) (out []aval, panics []string) {
	curOp := ""
	add := func(v any) {
		n := mk(v)
		n.how = append(append([]string{}, a.how...), curOp)
		out = append(out, n)
	}
	try := func(name string, f func()) {
		curOp = name
		if p := guard(f); p != "" {
			panics = append(panics, fmt.Sprintf("%s on %s {%s} (how: %s): %s", name, a.kind, a.key(), strings.Join(a.how, " -> "), p))
		}
	}
	var rels []sourceaddrs.LocalSource
	for _, r := range relSet {
		if l, err := sourceaddrs.ParseLocalSource(r); err == nil {
			rels = append(rels, l)
		}
	}
	switch v := a.v.(type) {
	case sourceaddrs.LocalSource, sourceaddrs.RemoteSource:
		for _, r := range rels {
			r := r
			try("rel:"+r.String(), func() {
				if n, err := sourceaddrs.ResolveRelativeSource(v.(sourceaddrs.Source), r); err == nil {
					add(n)
				}
			})
			try("relfinal:"+r.String(), func() {
				if n, err := sourceaddrs.ResolveRelativeFinalSource(v.(sourceaddrs.FinalSource), r); err == nil {
					add(n)
				}
			})
		}
		if rs, ok := v.(sourceaddrs.RemoteSource); ok {
			try("package", func() { add(rs.Package()) })
		}
	case sourceaddrs.RegistrySource:
		for _, r := range rels {
			r := r
			try("rel:"+r.String(), func() {
				if n, err := sourceaddrs.ResolveRelativeSource(v, r); err == nil {
					add(n)
				}
			})
		}
		for _, ver := range versionsSet() {
			ver := ver
			try("versioned:"+ver.String(), func() { add(v.Versioned(ver)) })
		}
		try("package", func() { add(v.Package()) })
		for _, rm := range remotes {
			rm := rm
			try("finaladdr:"+rm.String(), func() { add(v.FinalSourceAddr(rm)) })
		}
	case sourceaddrs.RegistrySourceFinal:
		for _, r := range rels {
			r := r
			try("relfinal:"+r.String(), func() {
				if n, err := sourceaddrs.ResolveRelativeFinalSource(v, r); err == nil {
					add(n)
				}
			})
		}
		try("unversioned", func() { add(v.Unversioned()) })
		try("package", func() { add(v.Package()) })
		for _, rm := range remotes {
			rm := rm
			try("finaladdr:"+rm.String(), func() { add(v.FinalSourceAddr(rm)) })
		}
	case sourceaddrs.RemotePackage:
		// "point a parsed address at a mirror": the same parts with another host, written the way a person
		// writes host names (the parser and the constructor must agree on what they do with letter case)
		if u := v.URL(); len(a.how) <= 2 && u != nil && u.Host == "example.com" {
			try("make-with-host:Git.Mirror.Example.COM", func() {
				cu := *u
				cu.Host = "Git.Mirror.Example.COM"
				if n, err := sourceaddrs.MakeRemoteSource(v.SourceType(), &cu, ""); err == nil {
					add(n)
				}
			})
		}
		for _, s := range subSet {
			s := s
			if !sourceaddrs.ValidSubPath(s) {
				continue
			}
			try("sourceaddr:"+s, func() { add(v.SourceAddr(s)) })
			try("make:"+s, func() {
				if n, err := sourceaddrs.MakeRemoteSource(v.SourceType(), v.URL(), s); err == nil {
					add(n)
				}
			})
		}
	case regaddr.ModulePackage:
		try("regsrc", func() {
			if n, err := sourceaddrs.ParseRegistrySource(v.String()); err == nil {
				add(n)
			}
		})
	}
	return
}

// ---------------------------------------------------------------------------
// seed grammar

func remoteSeeds(full bool) []string {
	types := []string{"", "git::", "GIT::", "https::", "http::", "hg::"}
	schemes := []string{"https://", "HTTPS://", "ssh://", "http://", "git://", ""}
	users := []string{"", "u@", "u:p@"}
	hosts := []string{"example.com", "EXAMPLE.com", "example.com:8080", "[::1]"}
	paths := []string{"/repo.git", "/foo.tgz", "/foo.tar.gz", "/foo", "/a%2Fb.tgz", "/a b.tgz", "/team/%2Fmirror/repo.git", "/%2F%2Fx.tgz", "/a%2F/b.tgz", "/foo/", "/", "/my files/v1%2B2.tgz"}
	subs := []string{"", "//sub", "//sub/dir", "//a b", "//a%20b", "//é", "//a@b", "//sub#f", "//.", "//..", "//a//b", "//", "//a/../b", "//a?b", "//%2e%2e/%2e%2e/x", "//a%2Fb", "//%2e"}
	queries := []string{"", "?ref=main", "?ref=a&ref=b", "?depth=1", "?archive=tgz", "?archive=tar.gz", "?archive=zip", "?checksum=x", "?b=1&archive=tgz&a=2", "?", "?ref=a%20b", "?ref=%zz", "?archive=tgz&archive=tgz",
		"?ref=main&depth=%zz", "?checksum=x;y=1", "?archive=tar%2Egz", "?%61rchive=tar.gz", "?xarchive=tar.gz&archive=tar.gz", "?ref=v1&ref=v2%zz", "?archive=tar.gz&x=archive%3Dtar.gz",
		"?ref=main&depth=1", "?depth=1&ref=main", "?sshkey=k&ref=main&depth=1"}
	frags := []string{"", "#frag"}
	if !full {
		types = []string{"", "git::", "GIT::", "http::"}
		schemes = []string{"https://", "HTTPS://", "ssh://", "http://"}
		users = []string{"", "u:p@"}
		hosts = []string{"example.com", "EXAMPLE.com:8080"}
		subs = []string{"", "//sub", "//sub/dir", "//a b", "//é", "//a@b", "//..", "//a//b", "//", "//%2e%2e/%2e%2e/x", "//a%2Fb"}
		queries = []string{"", "?ref=main", "?ref=a&ref=b", "?depth=1", "?archive=tgz", "?archive=tar.gz", "?checksum=x", "?b=1&archive=tgz&a=2", "?",
			"?ref=main&depth=%zz", "?checksum=x;y=1", "?archive=tar%2Egz", "?%61rchive=tar.gz", "?xarchive=tar.gz&archive=tar.gz",
			"?ref=main&depth=1", "?depth=1&ref=main"}
	}
	var out []string
	for _, t := range types {
		for _, sc := range schemes {
			for _, u := range users {
				for _, h := range hosts {
					for _, p := range paths {
						for _, sb := range subs {
							for _, q := range queries {
								for _, f := range frags {
									out = append(out, t+sc+u+h+p+sb+q+f)
								}
							}
						}
					}
				}
			}
		}
	}
	// unusual authorities (IPv6 literals whose last group is not decimal, zones,
	// trailing dot, default ports) and empty/bare query arguments, on a reduced product
	for _, t := range []string{"", "git::"} {
		for _, sc := range []string{"https://", "ssh://"} {
			for _, h := range []string{"[2001:db8::a]", "[2001:DB8::A]:8443", "[fe80::1%25en0]", "example.com.", "example.com:443", "example.com:22", "example.com:", "EXAMPLE.COM:0443", "127.0.0.1:8080", "xn--eckwd4c7c.example.com", "テラフォーム.example.com"} {
				for _, p := range []string{"/repo.git", "/foo.tgz", "/a%2Fb.tgz"} {
					for _, sb := range []string{"", "//sub", "//a b"} {
						for _, q := range []string{"", "?ref=main", "?archive=tar.gz"} {
							out = append(out, t+sc+h+p+sb+q)
						}
					}
				}
			}
		}
	}
	for _, base := range []string{"https://example.com/foo.tgz", "https://example.com/foo", "git::https://example.com/repo.git", "https://example.com/foo.tgz//sub"} {
		for _, q := range []string{"?checksum=", "?checksum", "?checksum=&checksum=md5:x", "?archive=", "?archive", "?archive=&archive=tgz", "?ref=", "?ref", "?ref=&ref=x", "?depth", "?depth=", "?=x", "?&", "?archive=tgz&checksum", "?archive=TGZ", "?ARCHIVE=zip", "?Checksum=x", "?sshkey"} {
			out = append(out, base+q)
		}
	}
	// surrounding white space (every parser must take the same view of it)
	for _, base := range []string{"git::https://example.com/repo.git", "https://example.com/foo.tgz//sub", "git::https://example.com/repo.git//a?ref=v1"} {
		out = append(out, base+" ", " "+base, base+"\t", base+"\n")
	}
	out = append(out, "git::https://example.com/repo.git//a ", "git::https://example.com/repo.git// a", "https://example.com/foo.tgz//a /b")
	// fragments with characters that need escaping
	for _, f := range []string{"#fr ag", "#fr%20ag", "#é", "#a#b", "#"} {
		out = append(out, "https://example.com/foo.tgz"+f, "git::https://example.com/repo.git?ref=v1"+f)
	}
	// fragments behind a sub-path and a query (where they stay fragments), with a literal '%' and a needless escape
	for _, f := range []string{"#100%25", "#rev%2541", "#a%41", "#fr%20ag", "#é", "#a%23b"} {
		out = append(out, "https://example.com/foo.tgz//sub/dir?archive=tgz"+f, "git::https://example.com/repo.git//sub?ref=v1"+f, "https://example.com/foo.tgz?archive=tgz"+f)
	}
	// opaque and shorthand forms
	for _, s := range []string{"git::ssh:git:pw@github.com/o/r.git", "git::ssh:git@github.com/o/r.git", "git::https:user@example.com/r.git//sub", "https:u:p@example.com/foo.tgz", "git::https:example.com/a@b.git",
		"git::https:foo", "https:foo.tgz", "git::https:foo//sub", "github.com/o/r", "github.com/o/r.git", "github.com/o/r/sub", "github.com/o/r/sub/dir", "github.com/o/r?ref=x",
		"github.com/o/r//sub", "github.com/o", "gitlab.com/o/r", "gitlab.com/o/r.git", "gitlab.com/o/r/a/b", "gitlab.com/o/r/a", "gitlab.com/o/r.git//sub?ref=v1", "github.com/o/rgit", "github.com/o/r/..", "GITHUB.com/o/r"} {
		out = append(out, s)
	}
	// empty authority: the part before the sub-path separator is a scheme and nothing else
	for _, s := range []string{"git::https:////example.com/r.git", "git::https:////user:pw@example.com/r.git", "git::https://", "git::ssh:////u@h/r", "git::https:////sub?ref=x", "git::https://?ref=x",
		"https:////example.com/a.tgz", "git::https:///r.git", "git::https:///r.git//sub", "git::https:////", "git::HTTPS:////a/b"} {
		out = append(out, s)
	}
	return out
}

func registrySeeds() (plain, final []string) {
	hosts := []string{"", "example.com/", "EXAMPLE.com/", "テラフォーム.example.com/", "example.com:8080/", "registry.terraform.io/", "gitlab.com/", "github.com/", "xn--eckwd4c7c.example.com/", "localhost/"}
	pkgs := []string{"hashicorp/subnets/cidr", "Hashi-Corp/sub_nets/aws", "a/b/c", "a/b/C", "-a/b/c", "a/b", "a/b/c/d"}
	subs := []string{"", "//sub", "//sub/dir", "//a b", "//é", "//a@b", "//a@1.0.0", "//.", "//..", "//a//b", "//", "//sub?x=1", "//../x"}
	vers := []string{"@1.0.0", "@1.0.0-beta", "@1.0.0+meta", "@v1.0.0", "@1.0", "@", "@1.0.0-beta+meta",
		"@9223372036854775808.0.0", "@0.18446744073709551615.1", "@1.0.18446744073709551616", "@01.0.0", "@1.0.0-BETA", "@1.0.0+META.01"}
	for _, h := range hosts {
		for _, p := range pkgs {
			for _, s := range subs {
				plain = append(plain, h+p+s)
				for _, v := range vers {
					final = append(final, h+p+v+s)
					final = append(final, h+p+s+v)
				}
			}
		}
	}
	return
}

func localSeeds(maxSeg int) []string {
	segs := []string{".", "..", "a", "b"}
	var out []string
	var rec func(cur []string)
	rec = func(cur []string) {
		if len(cur) > 0 {
			j := strings.Join(cur, "/")
			out = append(out, j, j+"/", "./"+j, "../"+j, "/"+j)
		}
		if len(cur) == maxSeg {
			return
		}
		for _, s := range segs {
			rec(append(append([]string{}, cur...), s))
		}
	}
	rec(nil)
	out = append(out, "./.h", "./.h/a", "../.h", "./a/.h", "./..h", "../..h/a", "./...", "", ".", "..", "./", "../", "./a:b", ".\\a", "./a b", "./é", " ./a", "./a ", "./a//b", "./a@1.0.0")
	return out
}

// parMap runs f over 0..n-1 on all cores.
func parMap(n int, f func(i int)) {
	var wg sync.WaitGroup
	w := 16
	ch := make(chan int, 1024)
	for k := 0; k < w; k++ {
		wg.Add(1)
		go func() {
			defer wg.Done()
			for i := range ch {
				f(i)
			}
		}()
	}
	for i := 0; i < n; i++ {
		ch <- i
	}
	close(ch)
	wg.Wait()
}

type seedResult struct {
	vals   []aval
	panics []string
}

// parseAll feeds every seed to every parser entry point and returns accepted values.
func parseSeed(s string) (r seedResult) {
	try := func(name string, f func() (any, error)) {
		if p := guard(func() {
			v, err := f()
			if err == nil {
				n := mk(v)
				n.how = []string{"parse:" + name + ":" + s}
				r.vals = append(r.vals, n)
			}
		}); p != "" {
			r.panics = append(r.panics, fmt.Sprintf("%s(%q) panics: %s", name, s, p))
		}
	}
	try("ParseSource", func() (any, error) { v, e := sourceaddrs.ParseSource(s); return v, e })
	try("ParseFinalSource", func() (any, error) { v, e := sourceaddrs.ParseFinalSource(s); return v, e })
	try("ParseRemoteSource", func() (any, error) { v, e := sourceaddrs.ParseRemoteSource(s); return v, e })
	try("ParseRemotePackage", func() (any, error) { v, e := sourceaddrs.ParseRemotePackage(s); return v, e })
	try("ParseRegistrySource", func() (any, error) { v, e := sourceaddrs.ParseRegistrySource(s); return v, e })
	try("ParseRegistryPackage", func() (any, error) { v, e := sourceaddrs.ParseRegistryPackage(s); return v, e })
	try("ParseFinalRegistrySource", func() (any, error) { v, e := sourceaddrs.ParseFinalRegistrySource(s); return v, e })
	try("ParseLocalSource", func() (any, error) { v, e := sourceaddrs.ParseLocalSource(s); return v, e })
	return
}

func allSeeds(full bool) []string {
	seeds := remoteSeeds(full)
	p, f := registrySeeds()
	seeds = append(seeds, p...)
	seeds = append(seeds, f...)
	n := 4
	if full {
		n = 5
	}
	seeds = append(seeds, localSeeds(n)...)
	return seeds
}

// collectValues parses all seeds and returns distinct accepted values.
func collectValues(seeds []string) (vals map[string]aval, accepted int, panics []string) {
	res := make([]seedResult, len(seeds))
	parMap(len(seeds), func(i int) { res[i] = parseSeed(seeds[i]) })
	vals = map[string]aval{}
	for _, r := range res {
		if len(r.vals) > 0 {
			accepted++
		}
		for _, v := range r.vals {
			vals[v.key()] = v
		}
		panics = append(panics, r.panics...)
	}
	return
}

// c06Cause attributes a failing value to a root cause computed from the value
// alone. Two causes are recorded known findings; everything else stays
// "unexplained" (and therefore a VIOLATION) together with the features present.
func c06Cause(a aval, sig string) string {
	sub := ""
	var u *url.URL
	var facts []string
	switch v := a.v.(type) {
	case sourceaddrs.LocalSource:
		if strings.ContainsAny(v.RelativePath(), " #%?@é") {
			facts = append(facts, "local-path-special-char")
		}
	case sourceaddrs.RemoteSource:
		sub, u = v.SubPath(), v.Package().URL()
	case sourceaddrs.RemotePackage:
		u = v.URL()
	case sourceaddrs.RegistrySource:
		sub = v.SubPath()
	case sourceaddrs.RegistrySourceFinal:
		sub = v.SubPath()
	}
	if strings.Contains(sub, "?") {
		return "sourceaddrs/round-trip/sub-path-contains-question-mark"
	}
	if u != nil && u.Fragment != "" && sub != "" && u.RawQuery == "" && !u.ForceQuery {
		// only without a query string: with one, the fragment stays a fragment when printed after the sub-path
		return "sourceaddrs/round-trip/package-url-has-fragment-and-sub-path"
	}
	if strings.TrimSpace(sub) != sub {
		return "sourceaddrs/round-trip/sub-path-begins-or-ends-with-white-space"
	}
	if sub != "" && (&url.URL{Path: sub}).EscapedPath() != sub {
		facts = append(facts, "sub-path-special-char")
	}
	if strings.Contains(sub, "@") {
		facts = append(facts, "sub-path-contains-@")
	}
	if u != nil {
		if u.RawPath != "" {
			facts = append(facts, "package-url-has-escaped-path")
		}
		if u.Opaque != "" {
			facts = append(facts, "opaque-package-url")
		}
		if u.User != nil {
			facts = append(facts, "url-with-userinfo")
		}
		if u.Fragment != "" {
			facts = append(facts, "url-with-fragment")
		}
		if _, err := url.ParseQuery(u.RawQuery); err != nil {
			facts = append(facts, "unparseable-query")
		}
	}
	sort.Strings(facts)
	if len(facts) == 0 {
		facts = []string{"no-special-feature"}
	}
	return "sourceaddrs/" + a.kind + "/" + sig + "/unexplained:" + strings.Join(facts, "+")
}

// RunC06: print/parse round trip over all values reachable by the API.
func RunC06(tier string) int {
	rep := core.NewReport("C06", tier)
	thorough := tier == "thorough"
	deadline := time.Now().Add(300 * time.Second)
	if thorough {
		deadline = time.Now().Add(25 * time.Minute)
	}
	seeds := allSeeds(thorough)
	vals, accepted, panics := collectValues(seeds)
	rep.Evaluations += len(seeds) * 8
	for _, p := range panics {
		rep.Violation("sourceaddrs/parse-panic", p, "", nil)
	}
	fmt.Printf("  seeds=%d accepted=%d distinct values=%d\n", len(seeds), accepted, len(vals))
	// remote sources used as registry answers
	var remotes []sourceaddrs.RemoteSource
	for _, s := range []string{"git::https://example.com/r.git", "git::https://example.com/r.git//base?ref=v1", "https://example.com/p.tgz//a/b", "https://example.com/p.tgz//a b"} {
		if r, err := sourceaddrs.ParseRemoteSource(s); err == nil {
			remotes = append(remotes, r)
		}
	}
	depth := 2
	if thorough {
		depth = 3
	}
	// States are kept as 12-byte digests of their value key; the printed form of a
	// state is kept as a digest too, with the provenance of the first state that
	// printed that way (enough to rebuild it when a second one collides). The
	// deepest level is streamed: its states are checked and dropped, never stored.
	type h12 [12]byte
	hs := func(s string) h12 {
		d := sha256.Sum256([]byte(s))
		var o h12
		copy(o[:], d[:12])
		return o
	}
	type firstPrinted struct {
		key h12
		how []string
	}
	seen := map[h12]struct{}{}
	printed := map[h12]firstPrinted{}
	collisions := map[h12][][]string{} // printed form -> provenances of the distinct states printing it
	var frontier []aval
	for k, v := range vals {
		seen[hs(k)] = struct{}{}
		frontier = append(frontier, v)
	}
	sort.Slice(frontier, func(i, j int) bool { return frontier[i].key() < frontier[j].key() })
	var mu sync.Mutex
	levels := []int{len(frontier)}
	memCapped := false
	overMem := func() bool {
		var ms runtime.MemStats
		runtime.ReadMemStats(&ms)
		return ms.Sys > 36<<30
	}
	register := func(a aval, viol [][2]string) {
		rep.Evaluations++
		rep.States++
		var s string
		if guard(func() { s = a.str() }) == "" {
			k := a.kind + "\x00" + s
			kh, vh := hs(k), hs(a.key())
			if f, ok := printed[kh]; !ok {
				printed[kh] = firstPrinted{vh, a.how}
			} else if f.key != vh {
				if collisions[kh] == nil {
					collisions[kh] = [][]string{f.how}
				}
				collisions[kh] = append(collisions[kh], a.how)
			}
			rep.Nontrivial(k)
			if rep.States%5003 == 0 {
				rep.Sample(fmt.Sprintf("%s {%s} prints %q", a.kind, a.key(), s))
			}
		}
		for _, v := range viol {
			rep.Violation(c06Cause(a, v[0]), v[1]+" [how: "+strings.Join(a.how, " -> ")+"]", "addrpath", map[string]any{"how": a.how})
		}
	}
	checkLevel := func(fr []aval) {
		results := make([][][2]string, len(fr))
		parMap(len(fr), func(i int) { results[i] = checkRoundTrip(fr[i]) })
		for i, a := range fr {
			register(a, results[i])
		}
	}
	checkLevel(frontier)
	for d := 1; d <= depth; d++ {
		if time.Now().After(deadline) || memCapped {
			rep.Exhaustive = false
			break
		}
		var apiPanics []string
		last := d == depth
		var nextFrontier []aval
		count := 0
		const chunk = 20000
		for lo := 0; lo < len(frontier); lo += chunk {
			if time.Now().After(deadline) || overMem() {
				rep.Exhaustive = false
				memCapped = true
				break
			}
			hi := lo + chunk
			if hi > len(frontier) {
				hi = len(frontier)
			}
			part := frontier[lo:hi]
			fresh := map[h12]aval{}
			parMap(len(part), func(i int) {
				succ, ps := successors(part[i], remotes)
				mu.Lock()
				rep.Transitions += len(succ)
				apiPanics = append(apiPanics, ps...)
				for _, sc := range succ {
					k := hs(sc.key())
					if _, ok := seen[k]; !ok {
						if _, dup := fresh[k]; !dup {
							fresh[k] = sc
						}
					}
				}
				mu.Unlock()
			})
			batch := make([]aval, 0, len(fresh))
			for k, v := range fresh {
				seen[k] = struct{}{}
				batch = append(batch, v)
			}
			sort.Slice(batch, func(i, j int) bool { return batch[i].key() < batch[j].key() })
			count += len(batch)
			checkLevel(batch)
			if !last {
				nextFrontier = append(nextFrontier, batch...)
			}
		}
		sort.Strings(apiPanics)
		for _, p := range apiPanics {
			rep.Violation("sourceaddrs/api-panic", p, "", nil)
		}
		levels = append(levels, count)
		frontier = nextFrontier
		if count == 0 {
			break
		}
	}
	// equal exactly when they print the same
	for _, hows := range collisions {
		var members []aval
		for _, how := range hows {
			if v, ok := replayHow(how); ok {
				members = append(members, v)
			}
		}
		if len(members) < 2 {
			continue
		}
		sort.Slice(members, func(i, j int) bool { return members[i].key() < members[j].key() })
		first := members[0]
		var keys []string
		for _, m := range members {
			keys = append(keys, m.key())
		}
		sig := c06Cause(first, "distinct-values-print-the-same")
		for _, m := range members {
			if c := c06Cause(m, "distinct-values-print-the-same"); strings.Contains(c, "/round-trip/") {
				sig = c // the collision is produced by a member with a recorded root cause
				break
			}
		}
		printedAs := ""
		guard(func() { printedAs = first.str() })
		rep.Violation(sig, fmt.Sprintf("%d distinct %s values print as %q: %s", len(members), first.kind, printedAs, strings.Join(keys, "  ||  ")), "", nil)
	}
	if memCapped {
		rep.Extra["stopped_early"] = "memory or time budget reached while streaming the deepest level; exhaustive=false"
	}
	rep.Transitions += len(seeds) * 8
	rep.Extra["seeds"] = len(seeds)
	rep.Extra["seeds_accepted"] = accepted
	rep.Extra["bfs_levels"] = levels
	rep.Rule = "every string of a token-product grammar (remote: type prefix × scheme × userinfo × host × path × sub-path × query × fragment, shorthands; registry: host × package × sub-path × version; local: all paths of <=4/5 segments over {.,..,a,b}) is given to all 8 parser entry points; from every accepted value a BFS over the public API (ResolveRelative*, Versioned, Unversioned, Package, FinalSourceAddr, SourceAddr, MakeRemoteSource) is run to depth 2/3, states deduplicated by Go value; in every state: String() parses back with the parser of its kind to an == value that prints the same, the generic parsers classify it identically, and no two distinct values of a kind print the same. Non-trivial/distinct = distinct printed forms."
	rep.Assumptions = []string{"values are compared with Go == (what map keys use)", "trusted: net/url, terraform-registry-address, go-versions"}
	return rep.Finish()
}

// ---------------------------------------------------------------------------
// C07 transport policy

func policyViolations(rs sourceaddrs.RemoteSource) []string {
	var out []string
	pkg := rs.Package()
	u := pkg.URL()
	t := pkg.SourceType()
	switch t {
	case "git":
		if u.Scheme != "https" && u.Scheme != "ssh" {
			out = append(out, "git-with-scheme-"+u.Scheme)
		}
	case "http", "https":
		if u.Scheme != "https" {
			out = append(out, "archive-with-scheme-"+u.Scheme)
		}
	default:
		out = append(out, "unknown-source-type-"+t)
	}
	if u.User != nil {
		out = append(out, "userinfo-present")
	}
	// an authority-less ("opaque") URL keeps whatever stood in front of the first '/' as text:
	// "ssh:git:pw@github.com/o/r.git" carries a user name and a password all the same
	if first, _, _ := strings.Cut(strings.TrimLeft(u.Opaque, "/"), "/"); strings.Contains(first, "@") {
		out = append(out, "userinfo-in-opaque-url")
	}
	// what a fetcher is handed is the printed address: read as a URL it must not carry credentials either
	// (a package URL that is a bare scheme followed by a sub-path "user:pw@host/x" prints as scheme://user:pw@host/x)
	printed := rs.String()
	if i := strings.Index(printed, "::"); i >= 0 && !strings.Contains(printed[:i], "/") && !strings.Contains(printed[:i], ":") {
		printed = printed[i+2:]
	}
	if pu, err := url.Parse(printed); err == nil && pu.User != nil && u.User == nil {
		out = append(out, "userinfo-in-printed-form")
	}
	q, err := url.ParseQuery(u.RawQuery)
	if err != nil {
		out = append(out, "query-does-not-parse")
	}
	switch t {
	case "git":
		for k, vs := range q {
			if k != "ref" {
				out = append(out, "git-query-arg-"+k)
			} else if len(vs) > 1 {
				out = append(out, "git-several-ref")
			}
		}
	case "http", "https":
		if len(q["checksum"]) > 0 {
			out = append(out, "archive-with-checksum")
		}
		ar := q["archive"]
		p := u.EscapedPath()
		suffix := strings.HasSuffix(p, ".tar.gz") || strings.HasSuffix(p, ".tgz")
		switch {
		case len(ar) == 0 && !suffix:
			out = append(out, "archive-without-suffix-or-archive-arg")
		case len(ar) > 1:
			out = append(out, "several-archive-args")
		case len(ar) == 1 && ar[0] != "tgz":
			out = append(out, "archive-arg-not-normalised-to-tgz:"+ar[0])
		}
	}
	sp := rs.SubPath()
	if sp != "" {
		for _, seg := range strings.Split(sp, "/") {
			if seg == "" || seg == "." || seg == ".." {
				out = append(out, "subpath-bad-segment")
				break
			}
		}
	}
	sort.Strings(out)
	return out
}

func RunC07(tier string) int {
	rep := core.NewReport("C07", tier)
	thorough := tier == "thorough"
	seeds := allSeeds(thorough)
	type res struct {
		accepted []sourceaddrs.RemoteSource
		from     []string
	}
	results := make([]res, len(seeds))
	parMap(len(seeds), func(i int) {
		s := seeds[i]
		add := func(name string, v any) {
			switch x := v.(type) {
			case sourceaddrs.RemoteSource:
				results[i].accepted = append(results[i].accepted, x)
				results[i].from = append(results[i].from, name)
			case sourceaddrs.RemotePackage:
				results[i].accepted = append(results[i].accepted, x.SourceAddr(""))
				results[i].from = append(results[i].from, name)
			}
		}
		guard(func() {
			if v, err := sourceaddrs.ParseSource(s); err == nil {
				add("ParseSource", v)
			}
			if v, err := sourceaddrs.ParseFinalSource(s); err == nil {
				add("ParseFinalSource", v)
			}
			if v, err := sourceaddrs.ParseRemoteSource(s); err == nil {
				add("ParseRemoteSource", v)
			}
			if v, err := sourceaddrs.ParseRemotePackage(s); err == nil {
				add("ParseRemotePackage", v)
			}
		})
	})
	nacc := 0
	for i, r := range results {
		rep.Evaluations += 4
		for j, rs := range r.accepted {
			nacc++
			pv := policyViolations(rs)
			rep.Nontrivial(rs.String())
			if len(pv) > 0 {
				rep.Violation("sourceaddrs."+r.from[j]+"/"+strings.Join(pv, "+"), fmt.Sprintf("%s(%q) accepted as %q", r.from[j], seeds[i], rs.String()), "addrpolicy", map[string]any{"parser": r.from[j], "s": seeds[i]})
			}
		}
		if i%40009 == 0 && len(r.accepted) > 0 {
			rep.Sample(fmt.Sprintf("%q accepted as %q", seeds[i], r.accepted[0].String()))
		}
	}
	rep.States += len(seeds)
	// Verdict stability. The iteration order of Go maps (url.Values) is chosen by
	// the runtime and is not a seam the harness owns, so it cannot be enumerated:
	// every seed with a multi-argument query is parsed again repeatCount times and
	// each verdict must equal the first (auxiliary sampling, recorded as such).
	{
		const repeatCount = 24
		var multi []int
		for i, s := range seeds {
			if strings.Contains(s, "&") {
				multi = append(multi, i)
			}
		}
		unstable := make([]string, len(multi))
		parMap(len(multi), func(k int) {
			s := seeds[multi[k]]
			verdict := func() (v string) {
				guard(func() {
					x, err := sourceaddrs.ParseSource(s)
					if err != nil {
						v = "rejected"
					} else {
						v = "accepted as " + x.String()
					}
				})
				return
			}
			first := verdict()
			for n := 0; n < repeatCount; n++ {
				if again := verdict(); again != first {
					unstable[k] = fmt.Sprintf("ParseSource(%q) is %s on one call and %s on another", s, first, again)
					return
				}
			}
		})
		for k, u := range unstable {
			rep.Evaluations += repeatCount
			if u != "" {
				rep.Violation("sourceaddrs.ParseSource/verdict-differs-between-calls", u, "addrpolicy", map[string]any{"parser": "ParseSource", "s": seeds[multi[k]], "repeat": 64})
			}
		}
		rep.Extra["verdict_stability"] = map[string]any{"seeds_with_multi_argument_query": len(multi), "repeats_each": repeatCount}
		// E4: the same seeds with the iteration order of every map the library ranges
		// over under the harness's control (all orders of each executed statement)
		margs := make([]any, len(multi))
		for k, i := range multi {
			margs[k] = map[string]any{"parser": "ParseSource", "s": seeds[i]}
		}
		mapOrdBudget = 240 * time.Second
		if thorough {
			mapOrdBudget = 20 * time.Minute
		}
		st := &mapOrdStats{}
		exploreMapOrders(0, "addrpolicy", margs, 2, func(_ int, raw json.RawMessage) string {
			// the verdict, not the wording of a rejection (which of several reasons is named first may vary)
			var o struct {
				Rejected string `json:"rejected"`
			}
			if json.Unmarshal(raw, &o) == nil && o.Rejected != "" {
				return "rejected"
			}
			return string(raw)
		},
			func(k int, choices []int, base, got string, arg MapOrdArg) {
				rep.Violation("sourceaddrs.ParseSource/verdict-depends-on-map-iteration-order", fmt.Sprintf("ParseSource(%q): canonical order gives %s, map orders %v give %s", seeds[multi[k]], base, choices, got), "mapord", arg)
			}, st)
		rep.Evaluations += st.Runs
		rep.Extra["map_orders"] = st.summary()
		if st.Capped {
			rep.Exhaustive = false
		}
		fmt.Printf("  map-order part: seeds=%d runs=%d choice points=%d differing=%d\n", st.Tasks, st.Runs, st.Points, st.Differing)
	}
	// shorthand spellings whose sub-path, as written, has an empty, '.' or '..' segment: an expansion that tidies the
	// path before the sub-path rule sees it would let them through as a clean object, so the verdict is demanded here
	{
		badN := 0
		for _, pre := range []string{"github.com/o/r", "gitlab.com/o/r", "github.com/o/r.git", "GitHub.com/o/r"} {
			for _, sub := range []string{"/a/../b", "/a/./b", "/a/b/", "/./a", "/a/..", "/a/.", "/mods/../../x", "/a/b/../c/"} {
				for _, q := range []string{"", "?ref=v1"} {
					s := pre + sub + q
					badN++
					rep.Evaluations++
					for name, f := range map[string]func(string) (any, error){
						"ParseSource":       func(x string) (any, error) { return sourceaddrs.ParseSource(x) },
						"ParseRemoteSource": func(x string) (any, error) { return sourceaddrs.ParseRemoteSource(x) },
						"ParseFinalSource":  func(x string) (any, error) { return sourceaddrs.ParseFinalSource(x) },
					} {
						var v any
						var err error
						if p := guard(func() { v, err = f(s) }); p != "" {
							rep.Violation("sourceaddrs."+name+"/panic", fmt.Sprintf("%s(%q) panics: %s", name, s, p), "", nil)
							continue
						}
						if err == nil {
							rep.Violation("sourceaddrs."+name+"/shorthand-with-bad-sub-path-segment-accepted", fmt.Sprintf("%s(%q) accepted as %v although the sub-path as written has an empty, '.' or '..' segment", name, s, v), "", nil)
						}
					}
				}
			}
		}
		rep.Extra["shorthand_bad_sub_paths"] = badN
	}
	// constructor product
	types := []string{"git", "https", "http", "GIT", "hg", "", "ssh"}
	var urls []*url.URL
	var urlDesc []string
	for _, s := range []string{"https://example.com/r.git", "ssh://example.com/r.git", "http://example.com/r.git", "git://example.com/r.git", "HTTPS://example.com/r.git", "https://u:p@example.com/r.git",
		"https://u@example.com/foo.tgz", "https://example.com/foo.tgz", "https://example.com/foo", "https://example.com/foo?archive=tar.gz", "https://example.com/foo?archive=zip", "https://example.com/foo.tgz?checksum=x",
		"https://example.com/r.git?ref=a&ref=b", "https://example.com/r.git?depth=1", "https://example.com/r.git//sub", "https://example.com/foo.tgz?archive=tgz&archive=tgz", "https:foo.tgz"} {
		u, err := url.Parse(s)
		if err == nil {
			urls = append(urls, u)
			urlDesc = append(urlDesc, "url.Parse("+s+")")
		}
	}
	// field-by-field URLs
	urls = append(urls, &url.URL{Scheme: "https", Host: "example.com", Path: "/r.git", User: url.UserPassword("u", "p")})
	urlDesc = append(urlDesc, "URL{https,example.com,/r.git,User:u:p}")
	urls = append(urls, &url.URL{Scheme: "https", Opaque: "//user:pw@example.com/foo.tgz"}, &url.URL{Scheme: "ssh", Opaque: "git@example.com/r.git"})
	urlDesc = append(urlDesc, "URL{Opaque://user:pw@example.com/foo.tgz}", "URL{Opaque:git@example.com/r.git}")
	urls = append(urls, &url.URL{Scheme: "https", Host: "example.com", Path: "/r.git", RawQuery: "ref=%zz"})
	urlDesc = append(urlDesc, "URL{RawQuery:ref=%zz}")
	urls = append(urls, &url.URL{Scheme: "https", Host: "example.com", Path: "/foo.tgz", RawQuery: "a;b"})
	urlDesc = append(urlDesc, "URL{RawQuery:a;b}")
	urls = append(urls, &url.URL{Scheme: "HTTPS", Host: "example.com", Path: "/foo.tgz"})
	urlDesc = append(urlDesc, "URL{Scheme:HTTPS}")
	urls = append(urls, &url.URL{Scheme: "https", Host: "example.com", Path: "/foo.tgz", User: url.User("u")})
	urlDesc = append(urlDesc, "URL{User:u}")
	subs := []string{"", "sub", "sub/dir", ".", "..", "a//b", "/a", "a/", "a/../b", "a b"}
	for _, t := range types {
		for ui, u := range urls {
			for _, sp := range subs {
				rep.Evaluations++
				rep.Transitions++
				var rs sourceaddrs.RemoteSource
				var err error
				if p := guard(func() { rs, err = sourceaddrs.MakeRemoteSource(t, u, sp) }); p != "" {
					rep.Violation("sourceaddrs.MakeRemoteSource/panic", fmt.Sprintf("MakeRemoteSource(%q, %s, %q) panics: %s", t, urlDesc[ui], sp, p), "", nil)
					continue
				}
				if err != nil {
					continue
				}
				nacc++
				rep.Nontrivial("ctor:" + t + urlDesc[ui] + sp)
				if pv := policyViolations(rs); len(pv) > 0 {
					rep.Violation("sourceaddrs.MakeRemoteSource/"+strings.Join(pv, "+"), fmt.Sprintf("MakeRemoteSource(%q, %s, %q) accepted", t, urlDesc[ui], sp), "addrpolicy", map[string]any{"parser": "MakeRemoteSource", "type": t, "url": u, "sub": sp})
				}
			}
		}
	}
	// valid grammar must be accepted
	validN := 0
	for _, typ := range []string{"", "git::"} {
		for _, sc := range []string{"https://", "ssh://"} {
			for _, h := range []string{"example.com", "example.com:8080", "EXAMPLE.com"} {
				for _, p := range []string{"/repo.git", "/o/repo"} {
					for _, sb := range []string{"", "//sub", "//sub/dir"} {
						for _, q := range []string{"", "?ref=main", "?ref=v1.0.0"} {
							if typ == "" {
								continue // bare https/ssh URL is not git
							}
							s := typ + sc + h + p + sb + q
							validN++
							if _, err := sourceaddrs.ParseSource(s); err != nil {
								rep.Violation("sourceaddrs.ParseSource/valid-address-rejected", fmt.Sprintf("valid git address %q rejected: %v", s, err), "", nil)
							}
						}
					}
				}
			}
		}
	}
	for _, typ := range []string{"", "https::"} {
		for _, h := range []string{"example.com", "example.com:8080"} {
			for _, p := range []string{"/foo.tgz", "/foo.tar.gz", "/d/foo.tgz"} {
				for _, sb := range []string{"", "//sub", "//sub/dir"} {
					for _, q := range []string{"", "?x=1"} {
						if typ == "https::" {
							continue // redundant type is rejected by design
						}
						s := typ + "https://" + h + p + sb + q
						validN++
						if _, err := sourceaddrs.ParseSource(s); err != nil {
							rep.Violation("sourceaddrs.ParseSource/valid-address-rejected", fmt.Sprintf("valid archive address %q rejected: %v", s, err), "", nil)
						}
					}
				}
			}
			for _, q := range []string{"?archive=tgz", "?archive=tar.gz"} {
				s := "https://" + h + "/foo" + q
				validN++
				rs, err := sourceaddrs.ParseRemoteSource(s)
				if err != nil {
					rep.Violation("sourceaddrs.ParseSource/valid-address-rejected", fmt.Sprintf("valid archive address %q rejected: %v", s, err), "", nil)
				} else if rs.Package().URL().Query().Get("archive") != "tgz" {
					rep.Violation("sourceaddrs.ParseRemoteSource/archive-arg-not-normalised", fmt.Sprintf("%q => %q", s, rs.String()), "", nil)
				}
			}
		}
	}
	// "::" is the type separator only in front of the URL: an IPv6 host, a path or a query argument may contain it
	for _, s := range []string{"https://[2001:db8::1]/modules/foo.tar.gz", "https://[::1]:8443/foo.tgz//sub/dir", "https://[fe80::1]/foo?archive=tar.gz", "https://example.com/ns::name.tgz",
		"https://example.com/foo.tgz?label=team::infra", "git::https://[2001:db8::1]/r.git", "git::https://example.com/a::b/r.git?ref=v1", "git::ssh://[::1]/r.git//sub", "https://example.com/foo.tgz//a::b"} {
		validN++
		for name, f := range map[string]func(string) error{
			"ParseSource":       func(x string) error { _, err := sourceaddrs.ParseSource(x); return err },
			"ParseRemoteSource": func(x string) error { _, err := sourceaddrs.ParseRemoteSource(x); return err },
			"ParseFinalSource":  func(x string) error { _, err := sourceaddrs.ParseFinalSource(x); return err },
		} {
			var err error
			if p := guard(func() { err = f(s) }); p != "" {
				rep.Violation("sourceaddrs."+name+"/panic", fmt.Sprintf("%s(%q) panics: %s", name, s, p), "", nil)
			} else if err != nil {
				rep.Violation("sourceaddrs."+name+"/valid-address-rejected", fmt.Sprintf("valid address %q (a '::' behind the URL scheme is not a type separator) rejected: %v", s, err), "", nil)
			}
		}
	}
	for _, s := range []string{"github.com/o/r", "github.com/o/r.git", "github.com/o/r/sub/dir", "gitlab.com/o/r", "gitlab.com/o/r.git", "github.com/o/r?ref=main"} {
		validN++
		if _, err := sourceaddrs.ParseSource(s); err != nil {
			rep.Violation("sourceaddrs.ParseSource/valid-address-rejected", fmt.Sprintf("valid shorthand %q rejected: %v", s, err), "", nil)
		}
	}
	rep.Evaluations += validN
	rep.Transitions += len(seeds) * 4
	rep.Extra["accepted_remote_addresses"] = nacc
	rep.Extra["valid_grammar_strings"] = validN
	rep.Extra["seeds"] = len(seeds)
	rep.Rule = "all grammar strings (see C06) through the 4 entry points that can yield a remote address + constructor product {7 types}×{22 URLs built by url.Parse and field by field}×{10 sub-paths}; every accepted address is judged by an independent policy predicate over (SourceType, URL, SubPath); every string of the valid sub-grammar must be accepted. Non-trivial = accepted; distinct by printed form."
	rep.Assumptions = []string{"'either a .tar.gz/.tgz path or a single archive argument' is read inclusively"}
	return rep.Finish()
}

// ---------------------------------------------------------------------------
// C11 path algebra

// stackResolve: base segments then rel applied segment-wise. ok=false when it pops an empty stack.
func stackResolve(base []string, rel string) (out []string, ok bool) {
	out = append([]string{}, base...)
	for _, seg := range strings.Split(rel, "/") {
		switch seg {
		case "", ".":
		case "..":
			if len(out) == 0 {
				return nil, false
			}
			out = out[:len(out)-1]
		default:
			out = append(out, seg)
		}
	}
	return out, true
}

func localRels(maxSeg int) []sourceaddrs.LocalSource {
	var out []sourceaddrs.LocalSource
	seen := map[string]bool{}
	for _, s := range localSeeds(maxSeg) {
		if l, err := sourceaddrs.ParseLocalSource(s); err == nil && !seen[l.String()] {
			seen[l.String()] = true
			out = append(out, l)
		}
	}
	return out
}

func RunC11(tier string) int {
	rep := core.NewReport("C11", tier)
	thorough := tier == "thorough"
	relN, tripleRelN := 4, 3
	if thorough {
		relN, tripleRelN = 5, 4
	}
	rels := localRels(relN)
	type base struct {
		src   sourceaddrs.Source
		fin   sourceaddrs.FinalSource
		segs  []string
		kind  string
		ident string // package/version identity, must be preserved
	}
	var bases []base
	subs := []string{"", "p", "p/q", "p/q/r", "p/q/r/s"}
	for _, sp := range subs {
		suffix := ""
		if sp != "" {
			suffix = "//" + sp
		}
		var segs []string
		if sp != "" {
			segs = strings.Split(sp, "/")
		}
		r := sourceaddrs.MustParseSource("git::https://example.com/r.git" + suffix + "?ref=v1").(sourceaddrs.RemoteSource)
		bases = append(bases, base{src: r, fin: r, segs: segs, kind: "remote", ident: r.Package().String()})
		g := sourceaddrs.MustParseSource("example.com/ns/name/sys" + suffix).(sourceaddrs.RegistrySource)
		bases = append(bases, base{src: g, segs: segs, kind: "registry", ident: g.Package().String()})
		for _, ver := range []string{"1.2.3", "2.0.0-beta.2+exp.sha.5114f85", "1.0.0+b"} {
			f := g.Versioned(versions.MustParseVersion(ver))
			bases = append(bases, base{fin: f, segs: segs, kind: "final", ident: f.Package().String() + "@" + f.SelectedVersion().String()})
		}
	}
	identOf := func(v any) (string, []string, string) {
		seg := func(s string) []string {
			if s == "" {
				return nil
			}
			return strings.Split(s, "/")
		}
		switch x := v.(type) {
		case sourceaddrs.RemoteSource:
			return x.Package().String(), seg(x.SubPath()), "remote"
		case sourceaddrs.RegistrySource:
			return x.Package().String(), seg(x.SubPath()), "registry"
		case sourceaddrs.RegistrySourceFinal:
			return x.Package().String() + "@" + x.SelectedVersion().String(), seg(x.SubPath()), "final"
		case sourceaddrs.LocalSource:
			return "", nil, "local"
		}
		return "?", nil, "?"
	}
	resolve := func(b base, rel sourceaddrs.LocalSource) (any, error, string) {
		var v any
		var err error
		p := guard(func() {
			if b.src != nil {
				v, err = sourceaddrs.ResolveRelativeSource(b.src, rel)
			} else {
				v, err = sourceaddrs.ResolveRelativeFinalSource(b.fin, rel)
			}
		})
		return v, err, p
	}
	isNilVal := func(v any) bool { return v == nil }
	// pairs with absolute bases
	for _, b := range bases {
		for _, rel := range rels {
			rep.Evaluations++
			rep.Transitions++
			v, err, p := resolve(b, rel)
			desc := fmt.Sprintf("resolve(%s base sub-path %q, %q)", b.kind, strings.Join(b.segs, "/"), rel.String())
			if p != "" {
				rep.Violation("sourceaddrs.ResolveRelative/panic", desc+" panics: "+p, "", nil)
				continue
			}
			want, ok := stackResolve(b.segs, rel.RelativePath())
			if !ok {
				if err == nil {
					rep.Violation("sourceaddrs.ResolveRelative/escape-not-refused/"+b.kind, desc+fmt.Sprintf(" climbs above the package root but yields %v", v), "", nil)
				} else if !isNilVal(v) {
					rep.Violation("sourceaddrs.ResolveRelative/error-with-non-nil-address/"+b.kind, desc+fmt.Sprintf(" fails but also yields %v", v), "", nil)
				}
				rep.Outcome("escape-refused")
				continue
			}
			if err != nil {
				rep.Violation("sourceaddrs.ResolveRelative/valid-resolution-refused/"+b.kind, desc+" refused: "+err.Error(), "", nil)
				continue
			}
			id, segs, kind := identOf(v)
			rep.Nontrivial(fmt.Sprint(kind, id, segs))
			rep.Outcome("resolved")
			if kind != b.kind || id != b.ident {
				rep.Violation("sourceaddrs.ResolveRelative/kind-or-package-changed/"+b.kind, desc+fmt.Sprintf(" yields %s %s", kind, id), "", nil)
			}
			if strings.Join(segs, "/") != strings.Join(want, "/") {
				rep.Violation("sourceaddrs.ResolveRelative/wrong-path/"+b.kind, desc+fmt.Sprintf(" yields sub-path %q, want %q", strings.Join(segs, "/"), strings.Join(want, "/")), "", nil)
			}
			if rep.Evaluations%3001 == 0 {
				rep.Sample(desc + " => " + fmt.Sprint(v))
			}
		}
		// absolute second argument returned unchanged
		// ... including an absolute FINAL registry address, which only the final entry point can take
		for _, abs := range []string{"example.com/a/b/c@1.0.0//z", "example.com/a/b/c@2.0.0-rc.1+m"} {
			fa, err := sourceaddrs.ParseFinalSource(abs)
			if err != nil {
				core.Fatalf("C11 setup: %v", err)
			}
			rep.Evaluations++
			if b.fin != nil {
				var v sourceaddrs.FinalSource
				var rerr error
				if p := guard(func() { v, rerr = sourceaddrs.ResolveRelativeFinalSource(b.fin, fa) }); p != "" {
					rep.Violation("sourceaddrs.ResolveRelativeFinalSource/panic", fmt.Sprintf("resolve(%v, %v) panics: %s", b.fin, fa, p), "", nil)
				} else if rerr != nil || v != fa {
					rep.Violation("sourceaddrs.ResolveRelativeFinalSource/absolute-argument-changed", fmt.Sprintf("resolve(%v, %v) = %v, %v", b.fin, fa, v, rerr), "", nil)
				}
			}
		}
		for _, abs := range []string{"git::https://other.example.com/x.git//q", "example.com/a/b/c//z", "https://example.com/f.tgz"} {
			a := sourceaddrs.MustParseSource(abs)
			rep.Evaluations++
			if b.src != nil {
				if v, err := sourceaddrs.ResolveRelativeSource(b.src, a); err != nil || v != a {
					rep.Violation("sourceaddrs.ResolveRelativeSource/absolute-argument-changed", fmt.Sprintf("resolve(%v, %v) = %v, %v", b.src, a, v, err), "", nil)
				}
			}
			if fa, ok := a.(sourceaddrs.FinalSource); ok && b.fin != nil {
				if v, err := sourceaddrs.ResolveRelativeFinalSource(b.fin, fa); err != nil || v != fa {
					rep.Violation("sourceaddrs.ResolveRelativeFinalSource/absolute-argument-changed", fmt.Sprintf("resolve(%v, %v) = %v, %v", b.fin, fa, v, err), "", nil)
				}
			}
		}
	}
	// local bases: lexical algebra incl. leading ".." preserved
	locals := localRels(3)
	for _, b := range locals {
		for _, rel := range rels {
			rep.Evaluations++
			rep.Transitions++
			var v sourceaddrs.Source
			var err error
			if p := guard(func() { v, err = sourceaddrs.ResolveRelativeSource(b, rel) }); p != "" {
				rep.Violation("sourceaddrs.ResolveRelative/panic", fmt.Sprintf("resolve(%q,%q) panics: %s", b, rel, p), "", nil)
				continue
			}
			if err != nil {
				rep.Violation("sourceaddrs.ResolveRelative/local-base-refused", fmt.Sprintf("resolve(%q,%q): %v", b, rel, err), "", nil)
				continue
			}
			l, ok := v.(sourceaddrs.LocalSource)
			if !ok {
				rep.Violation("sourceaddrs.ResolveRelative/kind-or-package-changed/local", fmt.Sprintf("resolve(%q,%q) = %T", b, rel, v), "", nil)
				continue
			}
			want := path.Join(b.RelativePath(), rel.RelativePath()) // lexical reference: (ups, names)
			wu, wn := localNorm(want)
			gu, gn := localNorm(l.RelativePath())
			rep.Nontrivial("local:" + l.RelativePath())
			if wu != gu || wn != gn {
				rep.Violation("sourceaddrs.ResolveRelative/wrong-path/local", fmt.Sprintf("resolve(%q,%q) = %q, want %q", b, rel, l, want), "", nil)
			}
			// the result must itself be a canonical local address
			if _, err := sourceaddrs.ParseLocalSource(l.String()); err != nil {
				rep.Violation("sourceaddrs.ResolveRelative/local-result-not-canonical", fmt.Sprintf("resolve(%q,%q) = %q which is not a valid local address: %v", b, rel, l, err), "", nil)
			}
		}
	}
	// composition on triples
	rels3 := localRels(tripleRelN)
	for _, b := range bases {
		if len(b.segs) > 3 && !thorough {
			continue
		}
		for _, r1 := range rels3 {
			v1, err1, _ := resolve(b, r1)
			for _, r2 := range rels3 {
				rep.Evaluations++
				rep.Transitions++
				// left: resolve(resolve(a,b),c)
				var left any
				var lerr error = err1
				if err1 == nil {
					b2 := base{kind: b.kind}
					if s, ok := v1.(sourceaddrs.Source); ok && b.src != nil {
						b2.src = s
					} else {
						b2.fin = v1.(sourceaddrs.FinalSource)
					}
					left, lerr, _ = resolve(b2, r2)
				}
				// right: resolve(a, join(b,c)) with join computed by the library for local+local
				j, jerr := sourceaddrs.ResolveRelativeSource(r1, r2)
				if jerr != nil {
					continue
				}
				jl := j.(sourceaddrs.LocalSource)
				right, rerr, _ := resolve(b, jl)
				// reference verdicts
				s1, ok1 := stackResolve(b.segs, r1.RelativePath())
				var wantL []string
				okL := false
				if ok1 {
					wantL, okL = stackResolve(s1, r2.RelativePath())
				}
				if okL {
					if lerr != nil {
						rep.Violation("sourceaddrs.ResolveRelative/composition/left-refused", fmt.Sprintf("%s base %q: resolve(resolve(a,%q),%q) refused: %v", b.kind, strings.Join(b.segs, "/"), r1, r2, lerr), "", nil)
						continue
					}
					_, ls, _ := identOf(left)
					if strings.Join(ls, "/") != strings.Join(wantL, "/") {
						rep.Violation("sourceaddrs.ResolveRelative/composition/left-wrong", fmt.Sprintf("%s base %q: resolve(resolve(a,%q),%q) = %v want sub-path %q", b.kind, strings.Join(b.segs, "/"), r1, r2, left, strings.Join(wantL, "/")), "", nil)
					}
					// the joined form equals the stepwise form whenever stepwise is defined
					if rerr != nil {
						rep.Violation("sourceaddrs.ResolveRelative/composition/joined-refused", fmt.Sprintf("%s base %q: resolve(a, join(%q,%q)=%q) refused but stepwise gives %v", b.kind, strings.Join(b.segs, "/"), r1, r2, jl, left), "", nil)
					} else if right != left {
						rep.Violation("sourceaddrs.ResolveRelative/composition/differs", fmt.Sprintf("%s base %q: stepwise %v != joined %v (join(%q,%q)=%q)", b.kind, strings.Join(b.segs, "/"), left, right, r1, r2, jl), "", nil)
					}
					rep.Outcome("composed")
				} else {
					if lerr == nil {
						rep.Violation("sourceaddrs.ResolveRelative/composition/escape-not-refused", fmt.Sprintf("%s base %q: resolve(resolve(a,%q),%q) = %v although it climbs above the root on the way", b.kind, strings.Join(b.segs, "/"), r1, r2, left), "", nil)
					}
					rep.Outcome("composition-escape-refused")
				}
			}
		}
	}
	// registry sub-path join (FinalSourceAddr)
	// sub-path segments are names, never URL text: percent signs and escapes stay as they are
	joinSubs := append(append([]string{}, subs...), "mods%20v2", "a%2Fb", "%2e%2e", "mods/%2e%2e", "100%", "a%zz/b", "é/ü")
	for _, realSub := range joinSubs {
		for _, callerSub := range joinSubs {
			rep.Evaluations++
			rs := sourceaddrs.MustParseSource("git::https://example.com/r.git").(sourceaddrs.RemoteSource).Package().SourceAddr(realSub)
			g := sourceaddrs.MustParseSource("example.com/ns/name/sys").(sourceaddrs.RegistrySource)
			if callerSub != "" {
				gs, err := sourceaddrs.ParseSource("example.com/ns/name/sys//" + callerSub)
				if err != nil {
					rep.NoVerdict++
					continue
				}
				g = gs.(sourceaddrs.RegistrySource)
			}
			got := g.FinalSourceAddr(rs)
			want := strings.Trim(realSub+"/"+callerSub, "/")
			if got.SubPath() != want || got.Package() != rs.Package() {
				rep.Violation("sourceaddrs.FinalSourceAddr/wrong-join", fmt.Sprintf("registry sub-path %q onto %q gives %q want %q", callerSub, realSub, got.SubPath(), want), "", nil)
			}
			f := g.Versioned(versions.MustParseVersion("1.0.0"))
			if f.FinalSourceAddr(rs) != got {
				rep.Violation("sourceaddrs.FinalSourceAddr/final-differs", fmt.Sprintf("final vs unversioned differ for %q onto %q", callerSub, realSub), "", nil)
			}
		}
	}
	rep.States = len(bases)*len(rels) + len(locals)*len(rels)
	rep.Extra["relatives"] = len(rels)
	rep.Extra["relatives_for_triples"] = len(rels3)
	rep.Extra["bases"] = len(bases)
	rep.Rule = fmt.Sprintf("all (base, relative) pairs: bases of every kind with sub-paths of depth 0..4, relatives = every canonical local path of <=%d segments over {.,..,a,b}; all triples with relatives of <=%d segments; oracle = segment stack (pop on empty stack of a remote/registry base ⇒ error and nil address), composition resolve(resolve(a,b),c) == resolve(a, b⊕c), absolute second argument unchanged, FinalSourceAddr = concatenation. Random longer inputs from the quantifier text are not sampled (different family).", relN, tripleRelN)
	return rep.Finish()
}

// localNorm gives (number of leading "..", remaining names joined) of a clean-ish local path.
func localNorm(p string) (int, string) {
	ups := 0
	var names []string
	for _, seg := range strings.Split(p, "/") {
		switch seg {
		case "", ".":
		case "..":
			if len(names) > 0 {
				names = names[:len(names)-1]
			} else {
				ups++
			}
		default:
			names = append(names, seg)
		}
	}
	return ups, strings.Join(names, "/")
}

// ---------------------------------------------------------------------------
// C19 part: every token string through every parser, in watched workers

var addrTokens = []string{"ns/name/sys", "git::", "https://", "github.com/", "example.com", "/", "//", "..", ".", "@", "?", "ref=", "&", "#", "%", "%zz", ":", "::", "a", "1.0.0", "é", " ", "\x00", "18446744073709551616", "-", "+"}

type addrTokArg struct {
	Prefix []int `json:"prefix"`
	MaxLen int   `json:"max_len"`
}

type addrTokOut struct {
	Strings  int      `json:"strings"`
	Accepted int      `json:"accepted"`
	Kinds    []string `json:"kinds"`
	Panics   []string `json:"panics"`
}

func addrTokHandler(raw json.RawMessage) (any, error) {
	var arg addrTokArg
	if err := json.Unmarshal(raw, &arg); err != nil {
		return nil, err
	}
	var out addrTokOut
	kinds := map[string]bool{}
	var rec func(cur string, n int)
	visit := func(s string) {
		out.Strings++
		r := parseSeed(s)
		if len(r.vals) > 0 {
			out.Accepted++
		}
		for _, v := range r.vals {
			kinds[v.kind] = true
			if p := guard(func() { _ = v.str() }); p != "" && len(out.Panics) < 20 {
				out.Panics = append(out.Panics, fmt.Sprintf("String() of %s parsed from %q panics: %s", v.kind, s, p))
			}
		}
		for _, p := range r.panics {
			if len(out.Panics) < 20 {
				out.Panics = append(out.Panics, p)
			}
		}
	}
	rec = func(cur string, n int) {
		visit(cur)
		if n == arg.MaxLen {
			return
		}
		for _, t := range addrTokens {
			rec(cur+t, n+1)
		}
	}
	pre := ""
	for _, i := range arg.Prefix {
		pre += addrTokens[i]
	}
	rec(pre, len(arg.Prefix))
	for k := range kinds {
		out.Kinds = append(out.Kinds, k)
	}
	sort.Strings(out.Kinds)
	return out, nil
}

func init() {
	core.Register("addrtokens", addrTokHandler)
	c19ExtraParts = append(c19ExtraParts, func(rep *core.Report, pool *core.Pool, thorough bool, record func(site, desc string, r core.Result, panicMsg string, sys string, arg any)) map[string]any {
		maxLen := 4
		if thorough {
			maxLen = 5
		}
		var args []addrTokArg
		args = append(args, addrTokArg{Prefix: nil, MaxLen: 1}) // the empty string and single tokens
		for i := range addrTokens {
			for j := range addrTokens {
				args = append(args, addrTokArg{Prefix: []int{i, j}, MaxLen: maxLen})
			}
		}
		total, acc := 0, 0
		kinds := map[string]bool{}
		pool.Map("addrtokens", len(args), func(i int) any { return args[i] }, func(i int, r core.Result) {
			var out addrTokOut
			desc := fmt.Sprintf("all 8 address parsers + String() on every token string with prefix %v up to %d tokens", args[i].Prefix, args[i].MaxLen)
			if !r.Hung && !r.Crashed && r.Panic == "" && r.Err == "" {
				json.Unmarshal(r.Out, &out)
				total += out.Strings
				acc += out.Accepted
				for _, k := range out.Kinds {
					kinds[k] = true
				}
				rep.Evaluations += out.Strings - 1
				rep.Outcome("returned")
				rep.Nontrivial(fmt.Sprint("addrtok", args[i].Prefix, out.Accepted, out.Kinds))
				for _, p := range out.Panics {
					rep.Violation("sourceaddrs/panic", p, "addrtokens", args[i])
				}
				if i%101 == 0 {
					rep.Sample(fmt.Sprintf("%s => %d strings, %d accepted, kinds %v", desc, out.Strings, out.Accepted, out.Kinds))
				}
			}
			record("sourceaddrs.Parse*", desc, r, "", "addrtokens", args[i])
		})
		rep.States += total
		fmt.Printf("  part address-parsers: token strings=%d accepted=%d kinds=%d\n", total, acc, len(kinds))
		return map[string]any{"part": "address-parsers-token-strings", "strings": total, "accepted": acc, "max_tokens": maxLen, "alphabet": len(addrTokens), "kinds_reached": len(kinds)}
	})
}

// ---------------------------------------------------------------------------
// replay of one address value from its provenance (no explorer)

func addrPathHandler(raw json.RawMessage) (any, error) {
	var arg struct {
		How []string `json:"how"`
	}
	if err := json.Unmarshal(raw, &arg); err != nil {
		return nil, err
	}
	if len(arg.How) == 0 {
		return nil, fmt.Errorf("empty provenance")
	}
	cur, ok := replayHow(arg.How)
	if !ok {
		return map[string]any{"error": "the recorded derivation no longer yields a value"}, nil
	}
	s := ""
	guard(func() { s = cur.str() })
	return map[string]any{"kind": cur.kind, "value": cur.key(), "prints": s, "violations": checkRoundTrip(cur)}, nil
}

// replayHow re-derives a value from its provenance.
func replayHow(how []string) (aval, bool) {
	if len(how) == 0 {
		return aval{}, false
	}
	parts := strings.SplitN(how[0], ":", 3)
	if len(parts) != 3 || parts[0] != "parse" {
		return aval{}, false
	}
	var cur aval
	found := false
	for _, v := range parseSeed(parts[2]).vals {
		if v.how[0] == how[0] {
			cur, found = v, true
		}
	}
	if !found {
		return aval{}, false
	}
	var remotes []sourceaddrs.RemoteSource
	for _, op := range how[1:] {
		if strings.HasPrefix(op, "finaladdr:") {
			if r, err := sourceaddrs.ParseRemoteSource(strings.TrimPrefix(op, "finaladdr:")); err == nil {
				remotes = append(remotes, r)
			}
		}
	}
	for _, op := range how[1:] {
		succ, _ := successors(cur, remotes)
		ok := false
		for _, n := range succ {
			if n.how[len(n.how)-1] == op {
				cur, ok = n, true
				break
			}
		}
		if !ok {
			return aval{}, false
		}
	}
	return cur, true
}

func init() { core.Register("addrpath", addrPathHandler) }

func addrPolicyHandler(raw json.RawMessage) (any, error) {
	var arg struct {
		Parser string   `json:"parser"`
		S      string   `json:"s"`
		Type   string   `json:"type"`
		URL    *url.URL `json:"url"`
		Sub    string   `json:"sub"`
		Repeat int      `json:"repeat"`
	}
	if err := json.Unmarshal(raw, &arg); err != nil {
		return nil, err
	}
	if arg.Repeat > 0 {
		seen := map[string]int{}
		for n := 0; n < arg.Repeat; n++ {
			if x, err := sourceaddrs.ParseSource(arg.S); err != nil {
				seen["rejected: "+err.Error()]++
			} else {
				seen["accepted as "+x.String()]++
			}
		}
		return map[string]any{"verdicts_over_repeated_calls": seen, "stable": len(seen) == 1}, nil
	}
	var rs sourceaddrs.RemoteSource
	var err error
	switch arg.Parser {
	case "MakeRemoteSource":
		rs, err = sourceaddrs.MakeRemoteSource(arg.Type, arg.URL, arg.Sub)
	case "ParseRemotePackage":
		var p sourceaddrs.RemotePackage
		p, err = sourceaddrs.ParseRemotePackage(arg.S)
		if err == nil {
			rs = p.SourceAddr("")
		}
	case "ParseRemoteSource":
		rs, err = sourceaddrs.ParseRemoteSource(arg.S)
	case "ParseFinalSource":
		var v sourceaddrs.FinalSource
		v, err = sourceaddrs.ParseFinalSource(arg.S)
		if err == nil {
			rs, _ = v.(sourceaddrs.RemoteSource)
		}
	default:
		var v sourceaddrs.Source
		v, err = sourceaddrs.ParseSource(arg.S)
		if err == nil {
			rs, _ = v.(sourceaddrs.RemoteSource)
		}
	}
	if err != nil {
		return map[string]any{"rejected": err.Error()}, nil
	}
	return map[string]any{"accepted_as": rs.String(), "policy_violations": policyViolations(rs)}, nil
}

func init() { core.Register("addrpolicy", addrPolicyHandler) }
