package sys

import (
	"fmt"
	"strings"
	"time"

	"verif/mc/core"
	"verif/mc/tarx"
)

// C12 — failures are reported, never turned into silently partial results.
// Engine E2: deviation-bounded enumeration of environment answers.

func c12Trees() [][]TNode {
	big := strings.Repeat("abcdefghij", 500)
	return [][]TNode{
		{},
		{{Path: "src/a", Kind: "file", Body: "1"}},
		{{Path: "src/a", Kind: "file", Body: big}, {Path: "src/d/b", Kind: "file", Body: "2"}, {Path: "src/l", Kind: "link", Target: "a"}},
		{{Path: "src/emptydir", Kind: "dir"}, {Path: "src/z", Kind: "file"}},
		{{Path: "src/x", Kind: "link", Target: "../out/f"}, {Path: "out/f", Kind: "file", Body: big}},
		{{Path: "src/" + strings.Repeat("n", 150), Kind: "file", Body: "long"}, {Path: "src/.terraformignore", Kind: "file", Body: "z\n"}, {Path: "src/z", Kind: "file", Body: "no"}},
	}
}

func RunC12(tier string) int {
	rep := core.NewReport("C12", tier)
	rep.Level = "fault_enumeration"
	thorough := tier == "thorough"
	deadline := time.Now().Add(110 * time.Second)
	if thorough {
		deadline = time.Now().Add(28 * time.Minute)
	}
	pool := core.NewPool(0)
	var parts []map[string]any

	// ---- (a) Pack: the writer fails at every byte offset ----
	{
		trees := c12Trees()
		type pj struct {
			t     int
			opt   PackArg
			fail  int
			short bool
		}
		var base []PackArg
		for _, t := range trees {
			for _, de := range []bool{false, true} {
				base = append(base, PackArg{Nodes: t, Deref: de, Ignore: true, NoTrees: true})
			}
		}
		lens := make([]int, len(base))
		pool.Map("pack", len(base), func(i int) any { return base[i] }, func(i int, r core.Result) {
			var out PackOut
			core.MustOut(r, &out)
			lens[i] = out.SlugLen
		})
		var jobs []PackArg
		for i, b := range base {
			step := 1
			if !thorough && lens[i] > 400 {
				step = 1 // still every offset: slugs are small thanks to gzip
			}
			for n := 1; n <= lens[i]; n += step {
				for _, short := range []bool{false, true} {
					a := b
					a.FailAt, a.ShortFail = n, short
					jobs = append(jobs, a)
				}
			}
		}
		silent := 0
		pool.Map("pack", len(jobs), func(i int) any { return jobs[i] }, func(i int, r core.Result) {
			rep.Evaluations++
			desc := fmt.Sprintf("Pack(deref=%v) tree [%s] writer fails after %d bytes (short=%v)", jobs[i].Deref, TreeString(jobs[i].Nodes), jobs[i].FailAt-1, jobs[i].ShortFail)
			if r.Hung || r.Crashed {
				rep.Violation("slug.Pack/hang-or-crash", desc, "pack", jobs[i])
				return
			}
			var out PackOut
			core.MustOut(r, &out)
			if out.Panic != "" {
				rep.Violation("slug.Pack/panic", desc+" "+out.Panic, "pack", jobs[i])
				return
			}
			if out.WriterErred {
				rep.Outcome("pack:writer-fault-hit")
				rep.Nontrivial(fmt.Sprintf("pack-fault:%d:%s", jobs[i].FailAt, out.Err))
				if out.Err == "" {
					silent++
					rep.Violation("slug.Pack/write-error-swallowed", desc+" — Pack returned success although the writer reported an error", "pack", jobs[i])
				}
			} else {
				rep.Outcome("pack:fault-not-reached")
			}
			if i%997 == 0 {
				rep.Sample(desc + fmt.Sprintf(" => err=%q", out.Err))
			}
		})
		// policy rejection is distinguishable
		pol := PackArg{Nodes: []TNode{{Path: "src/x", Kind: "link", Target: "../out/f"}, {Path: "out/f", Kind: "file", Body: "f"}}, NoTrees: true}
		pool.Map("pack", 1, func(int) any { return pol }, func(_ int, r core.Result) {
			var out PackOut
			core.MustOut(r, &out)
			rep.Evaluations++
			if out.Err == "" || !out.Illegal {
				rep.Violation("slug.Pack/policy-rejection-not-illegal-slug-error", fmt.Sprintf("external link without dereferencing: err=%q illegal=%v", out.Err, out.Illegal), "pack", pol)
			}
		})
		parts = append(parts, map[string]any{"part": "pack-writer-faults", "runs": len(jobs), "trees": len(trees)})
		fmt.Printf("  part pack-writer-faults: runs=%d\n", len(jobs))
	}

	// ---- (a2) Pack as an ordinary user: a directory that cannot be listed, at every position it can take ----
	// (the source directory itself, a dereferenced outside directory = both walk roots, a sub-directory, a
	// sub-directory of a dereferenced directory). Reading the tree fails there: the caller must be told, or —
	// if Pack reports success — every file of the tree must be in the slug.
	{
		upool := core.NewPool(65534)
		type lj struct {
			name  string
			nodes []TNode
			deref bool
			want  []string // regular entries a successful Pack must contain
		}
		ljs := []lj{
			{"source directory without read permission", []TNode{{Path: "src/main.tf", Kind: "file", Body: "m"}, {Path: "src", Kind: "dir", Mode: 0300}}, false, []string{"main.tf"}},
			{"dereferenced outside directory without read permission", []TNode{{Path: "src/main.tf", Kind: "file", Body: "m"}, {Path: "src/shared", Kind: "link", Target: "../out/shared"}, {Path: "out/shared/data.txt", Kind: "file", Body: "d"}, {Path: "out/shared", Kind: "dir", Mode: 0300}}, true, []string{"main.tf", "shared/data.txt"}},
			{"sub-directory without read permission", []TNode{{Path: "src/main.tf", Kind: "file", Body: "m"}, {Path: "src/sub/x", Kind: "file", Body: "x"}, {Path: "src/sub", Kind: "dir", Mode: 0300}}, false, []string{"main.tf", "sub/x"}},
			{"sub-directory of a dereferenced directory without read permission", []TNode{{Path: "src/main.tf", Kind: "file", Body: "m"}, {Path: "src/shared", Kind: "link", Target: "../out/shared"}, {Path: "out/shared/a", Kind: "file", Body: "a"}, {Path: "out/shared/sub/x", Kind: "file", Body: "x"}, {Path: "out/shared/sub", Kind: "dir", Mode: 0300}}, true, []string{"main.tf", "shared/a", "shared/sub/x"}},
			{"source directory without search permission", []TNode{{Path: "src/main.tf", Kind: "file", Body: "m"}, {Path: "src", Kind: "dir", Mode: 0600}}, false, []string{"main.tf"}},
		}
		var jobs []PackArg
		var which []int
		for k, j := range ljs {
			for _, ig := range []bool{false, true} {
				jobs = append(jobs, PackArg{Nodes: j.nodes, Deref: j.deref, Ignore: ig, NoTrees: true, UID: 65534})
				which = append(which, k)
			}
		}
		told := 0
		upool.Map("pack", len(jobs), func(i int) any { return jobs[i] }, func(i int, r core.Result) {
			rep.Evaluations++
			j := ljs[which[i]]
			desc := fmt.Sprintf("uid=65534 Pack(ignore=%v deref=%v) of a tree with a %s [%s]", jobs[i].Ignore, jobs[i].Deref, j.name, TreeString(j.nodes))
			if r.Hung || r.Crashed {
				rep.Violation("slug.Pack/hang-or-crash", desc, "pack", jobs[i])
				return
			}
			var out PackOut
			core.MustOut(r, &out)
			if out.SetupErr != "" {
				core.Fatalf("C12 unlistable part: %s", out.SetupErr)
			}
			if out.Panic != "" {
				rep.Violation("slug.Pack/panic", desc+" "+out.Panic, "pack", jobs[i])
				return
			}
			if out.Err != "" {
				told++
				rep.Outcome("pack:unlistable-directory-reported")
				rep.Nontrivial("unlistable:" + j.name)
				return
			}
			rep.Outcome("pack:success-despite-unlistable-directory")
			have := map[string]bool{}
			for _, e := range out.Entries {
				have[e.Name] = true
			}
			var missing []string
			for _, w := range j.want {
				if !have[w] {
					missing = append(missing, w)
				}
			}
			if len(missing) > 0 {
				rep.Violation("slug.Pack/success-with-partial-slug", fmt.Sprintf("%s — Pack reported success but the slug lacks %v", desc, missing), "pack", jobs[i])
			}
		})
		rep.States += len(jobs)
		parts = append(parts, map[string]any{"part": "pack-unlistable-directory-uid-65534", "runs": len(jobs), "reported": told})
		fmt.Printf("  part pack-unlistable-directory (uid 65534): runs=%d reported=%d\n", len(jobs), told)
	}
	// ---- (b) Unpack: the reader fails / ends at every byte offset ----
	{
		alpha := []tarx.Entry{{Name: "a", Kind: "reg", Body: "hello world"}, {Name: "d/", Kind: "dir", Mode: 0750}, {Name: "d/x", Kind: "reg", Body: "x"}, {Name: "l", Kind: "link", Target: "a"},
			{Name: "e/", Kind: "dir"}, {Name: "big", Kind: "reg", Body: strings.Repeat("0123456789abcdef", 300)}}
		var archives [][]tarx.Entry
		for _, e := range alpha {
			archives = append(archives, []tarx.Entry{e})
		}
		for _, e1 := range alpha {
			for _, e2 := range alpha {
				if e1.Name != e2.Name || e1.Kind == "reg" {
					archives = append(archives, []tarx.Entry{e1, e2})
				}
			}
		}
		if thorough {
			for _, e1 := range alpha[:4] {
				for _, e2 := range alpha[:4] {
					for _, e3 := range alpha[:5] {
						archives = append(archives, []tarx.Entry{e1, e2, e3})
					}
				}
			}
		}
		full := make([]UnpackOut, len(archives))
		pool.Map("unpack", len(archives), func(i int) any { return UnpackArg{Entries: archives[i], Cut: -1} }, func(i int, r core.Result) {
			core.MustOut(r, &full[i])
		})
		type uj struct {
			a    int
			cut  int
			mode string
			ch   int
		}
		var jobs []uj
		for i := range archives {
			for c := 0; c < full[i].GzLen; c++ {
				jobs = append(jobs, uj{i, c, "eof", 0}, uj{i, c, "err", 0}, uj{i, c, "wrapeof", 0})
				if thorough {
					jobs = append(jobs, uj{i, c, "err", 1})
				}
			}
		}
		pool.Map("unpack", len(jobs), func(i int) any {
			return UnpackArg{Entries: archives[jobs[i].a], Cut: jobs[i].cut, Mode: jobs[i].mode, Chunk: jobs[i].ch}
		}, func(i int, r core.Result) {
			rep.Evaluations++
			j := jobs[i]
			arg := UnpackArg{Entries: archives[j.a], Cut: j.cut, Mode: j.mode, Chunk: j.ch}
			desc := fmt.Sprintf("Unpack [%s] reader %s at offset %d of %d (chunk=%d)", tarx.Names(archives[j.a]), j.mode, j.cut, full[j.a].GzLen, j.ch)
			if r.Hung || r.Crashed {
				rep.Violation("slug.Unpack/hang-or-crash", desc, "unpack", arg)
				return
			}
			var out UnpackOut
			core.MustOut(r, &out)
			if out.Panic != "" {
				rep.Violation("slug.Unpack/panic", desc+" "+out.Panic, "unpack", arg)
				return
			}
			if out.Err != "" {
				rep.Outcome("unpack:error-reported")
				rep.Nontrivial("unpack-fault:" + strings.SplitN(out.Err, ":", 2)[0] + out.DstHash)
				return
			}
			rep.Outcome("unpack:success-despite-fault")
			if out.DstHash != full[j.a].DstHash {
				rep.Violation("slug.Unpack/success-with-partial-tree", desc+" — returned success but the tree differs from the complete archive: got "+oneLine(out.DstCanon)+" want "+oneLine(full[j.a].DstCanon), "unpack", arg)
			}
			if i%1999 == 0 {
				rep.Sample(desc + " => success with the complete tree (fault lies after the last byte the tar reader needs)")
			}
		})
		parts = append(parts, map[string]any{"part": "unpack-reader-faults", "runs": len(jobs), "archives": len(archives)})
		fmt.Printf("  part unpack-reader-faults: runs=%d archives=%d\n", len(jobs), len(archives))
	}

	// ---- (c)+(d) builder: every callback answer, bound 1/2; crash points at every boundary ----
	{
		bound := 1
		if thorough {
			bound = 2
		}
		scs, _ := enumerateScenarios(2, 1, []int{0, 2, 4, 5}, time.Now().Add(30*time.Second))
		if thorough {
			scs, _ = enumerateScenarios(2, 2, []int{0, 2, 4, 5, 6}, time.Now().Add(120*time.Second))
		}
		var good []scenario
		var goodC []*RefClosure
		for _, s := range scs {
			if c := Closure(s.world(), s.adds); c.Error == "" {
				good = append(good, s)
				goodC = append(goodC, c)
			}
		}
		// worlds in which dependency analysis itself must fail (an escaping local
		// dependency, an unsatisfiable version constraint): with a fault-free
		// environment and finders that report no diagnostics of their own, the
		// caller must still be told.
		{
			var must []scenario
			var why []string
			for _, s := range scs {
				if c := Closure(s.world(), s.adds); c.Error != "" {
					must = append(must, s)
					why = append(why, c.Error)
				}
			}
			margs := make([]BuildArg, len(must))
			pool.Map("build", len(must), func(i int) any {
				margs[i] = BuildArg{World: must[i].world(), Adds: must[i].adds, PostUse: true, CrashScan: true}
				return margs[i]
			}, func(i int, r core.Result) {
				rep.Evaluations++
				desc := must[i].String()
				if r.Hung || r.Crashed {
					rep.Violation("sourcebundle.Builder/hang-or-crash", desc+" "+firstLines(r.Stderr, 3), "build", margs[i])
					return
				}
				var out BuildOut
				core.MustOut(r, &out)
				told := out.CloseErr != "" || out.ClosePanic != ""
				for _, a := range out.Adds {
					if a.HasErrors || a.Panic != "" {
						told = true
					}
				}
				rep.Outcome("build:analysis-must-fail")
				rep.Nontrivial("must-fail:" + why[i])
				if !told {
					rep.Violation("sourcebundle.Builder/analysis-failure-not-reported", desc+" :: dependency analysis cannot succeed ("+why[i]+") but no Add call and not Close reported an error", "build", margs[i])
				}
				// ... and the builder is poisoned from the failing Add on: later Adds refuse, no bundle comes out
				failed := -1
				for k, a := range out.Adds {
					if a.HasErrors && failed < 0 {
						failed = k
					} else if failed >= 0 && a.Panic == "" {
						rep.Violation("sourcebundle.Builder/builder-usable-after-failure", fmt.Sprintf("%s :: Add #%d after the failed Add #%d did not refuse (diags %v)", desc, k, failed, a.Diags), "build", margs[i])
					}
				}
				if failed >= 0 && out.Bundle != nil {
					rep.Violation("sourcebundle.Builder/bundle-from-failed-build", desc+" :: Close returned a bundle after dependency analysis had failed ("+why[i]+")", "build", margs[i])
				}
			})
			parts = append(parts, map[string]any{"part": "builder-analysis-must-fail", "runs": len(must)})
			fmt.Printf("  part builder-analysis-must-fail: runs=%d\n", len(must))
		}
		// a singleton finder: every call returns the SAME warning slice; each caller and the tracer must
		// still see it with the file name rewritten for the package that was being analysed
		{
			sargs := make([]BuildArg, len(good))
			pool.Map("build", len(good), func(i int) any {
				sargs[i] = BuildArg{World: good[i].world(), Adds: good[i].adds, Trace: true, PostUse: true, ForceFind: 4, Probes: probesFor(goodC[i])}
				return sargs[i]
			}, func(i int, r core.Result) {
				rep.Evaluations++
				desc := good[i].String() + " finder=returns-one-shared-warning-slice"
				if r.Hung || r.Crashed {
					rep.Violation("sourcebundle.Builder/hang-or-crash", desc+" "+firstLines(r.Stderr, 3), "build", sargs[i])
					return
				}
				var out BuildOut
				core.MustOut(r, &out)
				for _, v := range judgeC12(good[i], goodC[i], out) {
					rep.Violation("sourcebundle.Builder/"+v[0], desc+" :: "+v[1], "build", sargs[i])
				}
				rep.Outcome("build:shared-diagnostics-slice")
				rep.Nontrivial(fmt.Sprintf("shared:%d:%d", len(out.Points), len(out.Trace)))
			})
			parts = append(parts, map[string]any{"part": "builder-singleton-finder-shared-diagnostics", "runs": len(good)})
		}
		type run struct {
			sc      int
			choices []int
			devs    int
		}
		frontier := []run{}
		for i := range good {
			frontier = append(frontier, run{i, nil, 0})
		}
		total := 0
		for level := 0; level <= bound; level++ {
			if time.Now().After(deadline) {
				rep.Exhaustive = false
				break
			}
			var next []run
			args := make([]BuildArg, len(frontier))
			pool.Map("build", len(frontier), func(i int) any {
				f := frontier[i]
				args[i] = BuildArg{World: good[f.sc].world(), Adds: good[f.sc].adds, Choices: f.choices, Trace: true, CrashScan: true, PostUse: true, Probes: probesFor(goodC[f.sc])}
				return args[i]
			}, func(i int, r core.Result) {
				rep.Evaluations++
				total++
				f := frontier[i]
				desc := fmt.Sprintf("%s choices=%v", good[f.sc], f.choices)
				if r.Hung || r.Crashed {
					rep.Violation("sourcebundle.Builder/hang-or-crash", desc+" "+firstLines(r.Stderr, 3), "build", args[i])
					return
				}
				var out BuildOut
				core.MustOut(r, &out)
				if out.BadPick != "" {
					core.Fatalf("replay divergence: %s (%s)", out.BadPick, desc)
				}
				for _, v := range judgeC12(good[f.sc], goodC[f.sc], out) {
					rep.Violation("sourcebundle.Builder/"+v[0], desc+" :: "+v[1], "build", args[i])
				}
				var pl []string
				for _, p := range out.Points {
					pl = append(pl, fmt.Sprintf("%s=%d", strings.SplitN(p.Label, " ", 2)[0], p.Chose))
				}
				rep.Nontrivial("build:" + strings.Join(pl, ",") + fmt.Sprint(out.Bundle != nil))
				if out.Bundle != nil {
					rep.Outcome("build:completed")
				} else {
					rep.Outcome("build:failed-as-injected")
				}
				if i%499 == 0 {
					rep.Sample(desc + fmt.Sprintf(" => points=%d boundaries=%d bundle=%v", len(out.Points), out.Boundaries, out.Bundle != nil))
				}
				if f.devs < bound {
					for pi := len(f.choices); pi < len(out.Points); pi++ {
						for alt := 1; alt < out.Points[pi].N; alt++ {
							ch := make([]int, pi+1)
							for k := 0; k < pi && k < len(out.Points); k++ {
								ch[k] = out.Points[k].Chose
							}
							ch[pi] = alt
							next = append(next, run{f.sc, ch, f.devs + 1})
						}
					}
				}
			})
			fmt.Printf("  part builder-faults: deviation level %d: runs=%d\n", level, len(frontier))
			frontier = next
		}
		parts = append(parts, map[string]any{"part": "builder-callback-faults+crash-points", "runs": total, "worlds": len(good), "deviation_bound_completed": bound})
	}
	rep.States = rep.Evaluations
	rep.Transitions = rep.Evaluations
	rep.Extra["parts"] = parts
	rep.Rule = "E2, one deviation at a time: Pack on 6 trees × {deref} with the writer failing at EVERY byte offset (plain and short write); Pack as uid 65534 on 5 trees with a directory that cannot be listed (the source itself, a dereferenced outside directory, sub-directories of both) — an error, or a complete slug; Unpack on every archive of <=2 (thorough 3) entries with the reader ending/failing (plain error, and an error that wraps io.EOF) at EVERY byte offset (thorough also 1-byte reads); builder: every callback (fetch, versions, source address, finder) of every error-free world (<=2 Adds, <=1/2 edges) is a choice point {ok, error; finders: error diag, warning diag, error diag with file ranges}, all single (thorough: double) deviations; every world of the same enumeration whose analysis cannot succeed (escaping local dependency, unsatisfiable constraint) is built fault-free and must report an error; at every callback boundary the target directory is copied and opened (crash points). Non-trivial = the injected fault was reached; distinct by (position, outcome)."
	rep.Assumptions = []string{"file-system faults inside Unpack/Builder are not injected (os is not behind a seam)", "a fault placed after the last byte the tar reader consumes is legitimately invisible"}
	return rep.Finish()
}

// judgeC12 evaluates the builder part of the property on one run.
func judgeC12(sc scenario, c *RefClosure, out BuildOut) (viol [][2]string) {
	bad := func(sig, f string, a ...any) { viol = append(viol, [2]string{sig, fmt.Sprintf(f, a...)}) }
	// which Add saw the first failing answer?
	failAdd := -1
	var failLabel string
	warnAdds := map[int]bool{}
	for _, p := range out.Points {
		failing := false
		switch {
		case strings.HasPrefix(p.Label, "find "):
			failing = p.Chose == 1 || p.Chose == 3
			if p.Chose == 2 || p.Chose == 3 || p.Chose == 4 {
				warnAdds[p.Add] = true
			}
		default:
			failing = p.Chose == 1
		}
		if failing && failAdd < 0 {
			failAdd, failLabel = p.Add, p.Label
		}
	}
	if len(out.CrashOpens) > 0 {
		bad("target-opens-before-close", "a copy of the target directory opened as a bundle at: %s", strings.Join(out.CrashOpens, "; "))
	}
	if failAdd < 0 {
		// no failing answer: build must succeed (warnings alone do not poison)
		for k, a := range out.Adds {
			if a.HasErrors || a.Panic != "" {
				bad("warning-or-nothing-poisons", "Add #%d failed although no callback failed: %v %s", k, a.Diags, a.Panic)
				return
			}
		}
		if out.Bundle == nil {
			bad("no-bundle-without-failure", "no bundle although nothing failed: %s %s", out.CloseErr, out.ClosePanic)
		} else if c != nil {
			// nothing failed (at most warnings were reported): the bundle must be complete
			for _, v := range judgeC08(sc, c, out) {
				bad("incomplete-after-warning-or-nothing/"+strings.TrimPrefix(v[0], "sourcebundle.Builder/"), "%s", v[1])
			}
		}
	} else {
		if failAdd >= len(out.Adds) {
			bad("INTERNAL", "failing add index out of range")
			return
		}
		if !out.Adds[failAdd].HasErrors {
			bad("failure-not-reported", "%s failed during Add #%d but that call returned no error diagnostic (diags %v)", failLabel, failAdd, out.Adds[failAdd].Diags)
		}
		for k := failAdd + 1; k < len(out.Adds); k++ {
			if out.Adds[k].Panic == "" {
				bad("builder-usable-after-failure", "Add #%d after the failed Add #%d did not refuse (diags %v)", k, failAdd, out.Adds[k].Diags)
			}
		}
		if out.Bundle != nil {
			bad("bundle-from-failed-build", "Close returned a bundle after %s failed", failLabel)
		} else if out.ClosePanic == "" {
			bad("close-after-failure-did-not-refuse", "Close after a failed build returned err=%q instead of refusing", out.CloseErr)
		}
		// the tracer saw the failure
		kind := strings.SplitN(failLabel, " ", 2)[0]
		key := strings.SplitN(failLabel, " ", 2)[1]
		want := map[string]string{"fetch": "download-failure ", "versions": "versions-failure ", "sourceaddr": "source-failure "}[kind]
		if want != "" {
			found := false
			for _, ev := range out.Trace {
				if ev == want+key {
					found = true
				}
			}
			if !found {
				bad("tracer-missed-failure", "no trace event %q for %s", want+key, failLabel)
			}
		}
	}
	// finder diagnostics: caller and tracer receive them intact, with rewritten file names
	var fromCaller []DiagOut
	for _, a := range out.Adds {
		for _, d := range a.Diags {
			if strings.HasPrefix(d.Summary, "finder ") || d.Summary == "second" {
				fromCaller = append(fromCaller, d)
			}
		}
	}
	var expected []DiagOut
	var expContent []string
	for _, p := range out.Points {
		if !strings.HasPrefix(p.Label, "find ") || p.Chose == 0 {
			continue
		}
		key := strings.TrimPrefix(p.Label, "find ")
		content := key[:strings.LastIndex(key, "//")]
		pkgOf := func(file string) string {
			// the package whose content class is `content`: the finder cannot know the address, the builder does
			return file
		}
		_ = pkgOf
		n0 := len(expected)
		switch p.Chose {
		case 1:
			expected = append(expected, DiagOut{Sev: "E", Summary: "finder error", Detail: "detail of " + key, Extra: "X1"})
		case 2:
			expected = append(expected, DiagOut{Sev: "W", Summary: "finder warning", Detail: "warn " + key, Subject: "//m/main.tf", Extra: "42", Ranges: "S{1 2 3}-{4 5 6}"})
		case 4:
			expected = append(expected, DiagOut{Sev: "W", Summary: "finder warning", Detail: "shared warning", Subject: "//m/main.tf", Extra: "42", Ranges: "S{1 2 3}-{4 5 6}"})
		case 3:
			expected = append(expected, DiagOut{Sev: "E", Summary: "finder error with ranges", Detail: "d", Subject: "//m/main.tf", Context: "//other.tf", Ranges: "S{1 2 3}-{4 5 6}C{7 8 9}-{0 0 0}"},
				DiagOut{Sev: "W", Summary: "second", Detail: "w", Subject: "../not-a-subpath", Ranges: "S{1 2 3}-{4 5 6}"})
		}
		for len(expContent) < len(expected) {
			expContent = append(expContent, content)
		}
		_ = n0
	}
	match := func(got DiagOut, want DiagOut, content string) bool {
		if got.Sev != want.Sev || got.Summary != want.Summary || got.Detail != want.Detail || got.Extra != want.Extra || got.Ranges != want.Ranges {
			return false
		}
		chk := func(g, w string) bool {
			if strings.HasPrefix(w, "//") {
				// must be rewritten to the source address of <file> inside the analysed package
				// (any package of the world whose printed address + file gives g)
				for _, p := range sc.world().Pkgs {
					if p.content() != content {
						continue
					}
					if mustRemote(p.Addr).Package().SourceAddr(strings.TrimPrefix(w, "//")).String() == g {
						return true
					}
				}
				return false
			}
			return g == w
		}
		return chk(got.Subject, want.Subject) && chk(got.Context, want.Context)
	}
	for _, where := range []struct {
		name string
		got  []DiagOut
	}{{"caller", fromCaller}, {"tracer", out.TraceDiags}} {
		got := where.got
		if len(got) != len(expected) {
			bad("finder-diagnostics-lost-or-duplicated", "%s received %d finder diagnostics, %d were raised: got %v want %v", where.name, len(got), len(expected), got, expected)
			continue
		}
		for i := range expected {
			if !match(got[i], expected[i], expContent[i]) {
				bad("finder-diagnostic-altered", "%s: diagnostic #%d is %+v, raised as %+v (file names must become <package>//<file>)", where.name, i, got[i], expected[i])
			}
		}
	}
	return
}
