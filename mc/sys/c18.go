package sys

import (
	"encoding/json"
	"fmt"
	"os"
	"path/filepath"
	"strings"
	"time"
	"unicode/utf8"

	"github.com/apparentlymart/go-versions/versions"
	"github.com/hashicorp/go-slug/sourceaddrs"
	"github.com/hashicorp/go-slug/sourcebundle"

	"verif/mc/core"
)

// C18 — bundle path lookups stay inside the bundle and invert each other.

type ManifestArg struct {
	Doc    string   `json:"doc"`
	Desc   string   `json:"desc,omitempty"`
	Probes []string `json:"probes,omitempty"` // final source addresses
	Dirs   []string `json:"dirs,omitempty"`   // directory names to try paths under
}

type ManifestOut struct {
	OpenErr string   `json:"open_err,omitempty"`
	Panic   string   `json:"panic,omitempty"`
	Facts   []string `json:"facts,omitempty"` // violations found by the worker-side oracle
	Lookups int      `json:"lookups"`
	Inverse int      `json:"inverse"`
	Refused int      `json:"refused"`
	Pkgs    int      `json:"pkgs"`
	Answers []string `json:"answers,omitempty"` // every lookup with its answer (root replaced), for the map-order comparison
}

func manifestHandler(raw json.RawMessage) (any, error) {
	var arg ManifestArg
	if err := json.Unmarshal(raw, &arg); err != nil {
		return nil, err
	}
	base := core.NewArena()
	defer core.RemoveArena(base)
	root := filepath.Join(base, "outer", "bundle")
	os.MkdirAll(root, 0755)
	os.WriteFile(filepath.Join(root, "terraform-sources.json"), []byte(arg.Doc), 0644)
	for _, d := range []string{"d1", "d2", "d1x"} {
		os.MkdirAll(filepath.Join(root, d, "m", "n"), 0755)
	}
	os.MkdirAll(filepath.Join(base, "outer", "bundle-evil"), 0755)
	// links inside a package directory: lookups are about names, not about what the names resolve to
	os.MkdirAll(filepath.Join(root, "d1", "v2"), 0755)
	os.WriteFile(filepath.Join(root, "d1", "v2", "main.tf"), []byte("x"), 0644)
	os.Symlink("v2", filepath.Join(root, "d1", "latest"))
	os.Symlink(filepath.Join(base, "outer", "bundle-evil"), filepath.Join(root, "d1", "vendored"))
	os.Symlink("../d2/m", filepath.Join(root, "d1", "other"))
	var out ManifestOut
	var b *sourcebundle.Bundle
	func() {
		defer func() {
			if r := recover(); r != nil {
				out.Panic = "OpenDir: " + fmt.Sprint(r)
			}
		}()
		var err error
		b, err = sourcebundle.OpenDir(root)
		if err != nil {
			out.OpenErr = err.Error()
		}
	}()
	if b == nil {
		return out, nil
	}
	fact := func(f string, a ...any) { out.Facts = append(out.Facts, fmt.Sprintf(f, a...)) }
	guardf := func(name string, f func()) {
		defer func() {
			if r := recover(); r != nil {
				out.Panic = name + ": " + fmt.Sprint(r)
			}
		}()
		f()
	}
	out.Pkgs = len(b.RemotePackages())
	inside := func(p string) bool { return strings.HasPrefix(p, root+"/") && filepath.Clean(p) == p }
	// forward lookups
	var probes []sourceaddrs.FinalSource
	for _, ps := range arg.Probes {
		if a, err := sourceaddrs.ParseFinalSource(ps); err == nil {
			probes = append(probes, a)
		}
	}
	for _, pk := range b.RemotePackages() {
		for _, sp := range []string{"", "m", "m/n"} {
			probes = append(probes, pk.SourceAddr(sp))
		}
		// "a nil value represents no metadata": the accessors are part of every answer about a package
		pk := pk
		guardf("RemotePackageMeta.GitCommitID", func() {
			m := b.RemotePackageMeta(pk)
			_ = m.GitCommitID() + m.GitCommitMessage()
		})
	}
	for _, rp := range b.RegistryPackages() {
		for _, v := range b.RegistryPackageVersions(rp) {
			for _, sp := range []string{"", "m", "m/n"} {
				s := rp.String()
				if sp != "" {
					s += "//" + sp
				}
				if rs, err := sourceaddrs.ParseRegistrySource(s); err == nil {
					probes = append(probes, rs.Versioned(v))
				}
			}
		}
	}
	for _, a := range probes {
		if _, isLocal := a.(sourceaddrs.LocalSource); isLocal {
			continue
		}
		guardf("LocalPathForSource", func() {
			p, err := b.LocalPathForSource(a)
			out.Lookups++
			out.Answers = append(out.Answers, strings.ReplaceAll(fmt.Sprintf("fwd %v => %q err=%v", a, p, err != nil), root, "<ROOT>"))
			if err == nil && !inside(p) {
				fact("lookup of %s returns %q which is not strictly inside the bundle root", a, strings.Replace(p, root, "<ROOT>", 1))
			}
			// the specific entry points must agree with the general one
			same := func(name, q string, e error) {
				if (e == nil) != (err == nil) || (e == nil && q != p) {
					fact("%s(%s) = (%q, %v) but LocalPathForSource gives (%q, %v)", name, a, strings.Replace(q, root, "<ROOT>", 1), e, strings.Replace(p, root, "<ROOT>", 1), err)
				}
			}
			switch x := a.(type) {
			case sourceaddrs.RemoteSource:
				q, e := b.LocalPathForRemoteSource(x)
				same("LocalPathForRemoteSource", q, e)
			case sourceaddrs.RegistrySourceFinal:
				q, e := b.LocalPathForFinalRegistrySource(x)
				same("LocalPathForFinalRegistrySource", q, e)
				q, e = b.LocalPathForRegistrySource(x.Unversioned(), x.SelectedVersion())
				same("LocalPathForRegistrySource", q, e)
			}
		})
	}
	// reverse lookups
	var paths []string
	for _, d := range arg.Dirs {
		paths = append(paths, filepath.Join(root, d), filepath.Join(root, d, "m"), filepath.Join(root, d, "m", "n"), root+"/"+d+"/./m", root+"/"+d+"/x/../m", root+"/"+d+"/m/n/../..", root+"/"+d+"/file.tf")
		// names a file system allows and an address grammar might not
		for _, odd := range []string{"latest/main.tf", "latest", "vendored/main.tf", "other/n", "what?.md", "why?/main.tf", "a b/ü", "a#b", "a%2Fb", "a%zz", "*", "a@b", "a:b", "..data", "a..", "m/...", "a\\b", "?", "#"} {
			paths = append(paths, root+"/"+d+"/"+odd)
		}
	}
	cwd, _ := os.Getwd()
	for _, d := range arg.Dirs {
		if rel, err := filepath.Rel(cwd, filepath.Join(root, d, "m")); err == nil {
			paths = append(paths, rel)
		}
	}
	// directories that some package address currently maps to (by the forward table)
	liveDirs := map[string]bool{}
	for _, pk := range b.RemotePackages() {
		if p, err := b.LocalPathForRemoteSource(pk.SourceAddr("")); err == nil && strings.HasPrefix(p, root+"/") {
			first, _, _ := strings.Cut(strings.TrimPrefix(p, root+"/"), "/")
			liveDirs[first] = true
		}
	}
	for _, p := range paths {
		guardf("SourceForLocalPath", func() {
			src, err := b.SourceForLocalPath(p)
			out.Answers = append(out.Answers, strings.ReplaceAll(fmt.Sprintf("rev %q => %v err=%v", p, src, err != nil), root, "<ROOT>"))
			if err != nil {
				if abs, e := filepath.Abs(p); e == nil && strings.HasPrefix(filepath.Clean(abs), root+"/") {
					rel := strings.TrimPrefix(filepath.Clean(abs), root+"/")
					first, rest, _ := strings.Cut(rel, "/")
					if liveDirs[first] && utf8.ValidString(rest) {
						fact("path %q lies inside package directory %q (a package address maps to it) but is reported as not belonging: %v", strings.Replace(p, root, "<ROOT>", 1), first, err)
					}
				}
				return
			}
			out.Inverse++
			back, err := b.LocalPathForSource(src)
			abs, _ := filepath.Abs(p)
			if err != nil {
				fact("SourceForLocalPath(%q) = %s, which cannot be looked up again: %v", strings.Replace(p, root, "<ROOT>", 1), src, err)
			} else if back != filepath.Clean(abs) {
				fact("SourceForLocalPath(%q) = %s maps back to %q", strings.Replace(p, root, "<ROOT>", 1), src, strings.Replace(back, root, "<ROOT>", 1))
			}
		})
	}
	// what the bundle hands out must not be its own working storage: overwrite every
	// element of every slice it returned and ask the same questions again
	{
		before := append([]string{}, out.Answers...)
		guardf("mutating returned slices", func() {
			pk := b.RemotePackages()
			for i := range pk {
				pk[i] = pk[0]
			}
			rp := b.RegistryPackages()
			rpCopy := append(rp[:0:0], rp...)
			for _, r := range rpCopy {
				vs := b.RegistryPackageVersions(r)
				for i := range vs {
					vs[i] = vs[0]
				}
			}
			for i := range rp {
				rp[i] = rp[0]
			}
		})
		var after []string
		for _, a := range probes {
			if _, isLocal := a.(sourceaddrs.LocalSource); isLocal {
				continue
			}
			guardf("LocalPathForSource", func() {
				p, err := b.LocalPathForSource(a)
				after = append(after, strings.ReplaceAll(fmt.Sprintf("fwd %v => %q err=%v", a, p, err != nil), root, "<ROOT>"))
			})
		}
		for _, p := range paths {
			guardf("SourceForLocalPath", func() {
				src, err := b.SourceForLocalPath(p)
				after = append(after, strings.ReplaceAll(fmt.Sprintf("rev %q => %v err=%v", p, src, err != nil), root, "<ROOT>"))
			})
		}
		if strings.Join(before, "\n") != strings.Join(after, "\n") {
			for i := range before {
				if i >= len(after) || before[i] != after[i] {
					got := "(missing)"
					if i < len(after) {
						got = after[i]
					}
					fact("after the caller overwrote the elements of the slices RemotePackages/RegistryPackages/RegistryPackageVersions had returned, the bundle answers differently: %s became %s", before[i], got)
					break
				}
			}
		}
	}
	// paths that do not belong to any package
	for _, p := range []string{root, root + "/", filepath.Join(root, "terraform-sources.json"), filepath.Join(root, "unknown-dir", "x"), filepath.Join(root, "d1zz", "x"), filepath.Join(root, "d1-other"), filepath.Join(root, "d"), filepath.Dir(root), filepath.Join(filepath.Dir(root), "bundle-evil", "d1"), "/", filepath.Join(root, "..", "bundle-evil")} {
		guardf("SourceForLocalPath", func() {
			src, err := b.SourceForLocalPath(p)
			if err == nil {
				fact("path %q, which is not inside a package directory, is reported as %s", strings.Replace(p, root, "<ROOT>", 1), src)
			} else {
				out.Refused++
			}
		})
	}
	return out, nil
}

func init() { core.Register("manifest", manifestHandler) }

const (
	mA      = "git::https://example.com/a.git"
	mAalias = "git::https://example.com/a.git?ref=main"
	mB      = "https://example.com/b.tgz"
	mReg    = "example.com/ns/n/sys"
)

type mPkg struct{ Source, Local, ID, Msg string }

func manifestDoc(format string, pkgs []mPkg, reg string) string {
	var sb strings.Builder
	sb.WriteString("{")
	first := true
	sep := func() {
		if !first {
			sb.WriteString(",")
		}
		first = false
	}
	if format != "absent" {
		sep()
		sb.WriteString(`"terraform_source_bundle":` + format)
	}
	if len(pkgs) > 0 {
		sep()
		sb.WriteString(`"packages":[`)
		for i, p := range pkgs {
			if i > 0 {
				sb.WriteString(",")
			}
			src, _ := json.Marshal(p.Source)
			loc, _ := json.Marshal(p.Local)
			sb.WriteString(`{"source":` + string(src) + `,"local":` + string(loc))
			if p.ID != "" || p.Msg != "" {
				id, _ := json.Marshal(p.ID)
				msg, _ := json.Marshal(p.Msg)
				sb.WriteString(`,"meta":{"git_commit_id":` + string(id) + `,"git_commit_message":` + string(msg) + `}`)
			}
			sb.WriteString("}")
		}
		sb.WriteString("]")
	}
	if reg != "" {
		sep()
		sb.WriteString(`"registry":[` + reg + `]`)
	}
	sb.WriteString("}")
	return sb.String()
}

func c18Docs(thorough bool) (docs []ManifestArg) {
	sources := []string{mA, mB, mA + "//sub", "not a url", "", mAalias}
	locals := []string{"d1", "d2", "", ".", "..", "../x", "a/b", "/abs", "d1/", "..\\x", "../bundle-evil", "d1/../d2", "./d1", "d1/m", "..data", "..."} // the last two are ordinary names that merely begin with two dots
	formats := []string{"1", "0", "2", "absent", `"1"`, "1.0", "-1", "18446744073709551617"}
	src2 := []string{mA, mB, mAalias, "garbage"}
	loc2 := []string{"d1", "d2", "..", "d1/x", "d1x", "D1"}
	probes := []string{mA + "//%2e%2e/%2e%2e/outside", mA + "//a%2F..%2F..%2Fx", mA, mA + "//m", mB + "//m/n", mAalias + "//m", "git::https://example.com/zzz.git", mReg + "@1.0.0", mReg + "@1.0.0//m", mReg + "@9.9.9"}
	add := func(desc, doc string) {
		docs = append(docs, ManifestArg{Doc: doc, Desc: desc, Probes: probes, Dirs: []string{"d1", "d2", "d1x", "unknown", "D1", "D2", "..data", "..."}})
	}
	fs := formats[:1]
	if thorough {
		fs = formats
	}
	for _, f := range fs {
		for _, s1 := range sources {
			for _, l1 := range locals {
				add(fmt.Sprintf("format=%s pkg1{%q,%q}", f, s1, l1), manifestDoc(f, []mPkg{{s1, l1, "", ""}}, ""))
				for _, s2 := range src2 {
					for _, l2 := range loc2 {
						add(fmt.Sprintf("format=%s pkg1{%q,%q} pkg2{%q,%q}", f, s1, l1, s2, l2), manifestDoc(f, []mPkg{{s1, l1, "", ""}, {s2, l2, "", ""}}, ""))
					}
				}
			}
		}
	}
	for _, f := range formats {
		add("format="+f+" one valid package", manifestDoc(f, []mPkg{{mA, "d1", "", ""}}, ""))
		add("format="+f+" no packages", manifestDoc(f, nil, ""))
	}
	// registry section
	regSrcs := []string{mReg, "x", mReg + "//sub", ""}
	verKeys := []string{"1.0.0", "garbage", "v1.0.0", "", "1.0.18446744073709551616", "1.0.0+b", "01.0.0"}
	verSrcs := []string{mA + "//%2e%2e/%2e%2e/%2e%2e", mA + "//m", "garbage", mA, "git::https://example.com/other.git//../x", mB + "//m/n"}
	for _, rs := range regSrcs {
		for _, vk := range verKeys {
			for _, vs := range verSrcs {
				for _, dep := range []string{"null", `{"Version":"1.0.0","Reason":"r","Link":"l"}`, `"str"`} {
					rsj, _ := json.Marshal(rs)
					vkj, _ := json.Marshal(vk)
					vsj, _ := json.Marshal(vs)
					reg := `{"source":` + string(rsj) + `,"versions":{` + string(vkj) + `:{"source":` + string(vsj) + `,"deprecation":` + dep + `}}}`
					for _, pk := range [][]mPkg{{{mA, "d1", "abc", "msg"}}, {{mA, "d1", "", "msg-without-id"}, {mB, "d1", "", ""}}, nil, {{mA, "..", "", ""}}} {
						add(fmt.Sprintf("registry{%q,%q,%q,dep=%s} pkgs=%v", rs, vk, vs, dep, pk), manifestDoc("1", pk, reg))
					}
				}
			}
		}
	}
	// the same registry package twice (also under two spellings of the default host), disjoint and overlapping versions
	regEntry := func(src, ver, vsrc string) string {
		return `{"source":"` + src + `","versions":{"` + ver + `":{"source":"` + vsrc + `","deprecation":null}}}`
	}
	for _, second := range []string{mReg, "ns/n/sys", "registry.terraform.io/ns/n/sys"} {
		first := mReg
		if second != mReg {
			first = "registry.terraform.io/ns/n/sys"
		}
		for _, v2 := range []string{"1.0.0", "2.0.0"} {
			add(fmt.Sprintf("registry package %s listed twice (second as %s, version %s)", first, second, v2),
				manifestDoc("1", []mPkg{{mA, "d1", "", ""}}, regEntry(first, "1.0.0", mA+"//m")+","+regEntry(second, v2, mA+"//m/n")))
		}
	}
	add("registry entry without versions, then again with one", manifestDoc("1", []mPkg{{mA, "d1", "", ""}}, `{"source":"`+mReg+`"},`+regEntry(mReg, "1.0.0", mA)))
	// duplicates / aliases
	add("same source twice, different dirs", manifestDoc("1", []mPkg{{mA, "d1", "", ""}, {mA, "d2", "", ""}}, ""))
	add("aliases sharing one dir, equal length", manifestDoc("1", []mPkg{{"git::https://example.com/x.git", "d1", "", ""}, {"git::https://example.com/y.git", "d1", "", ""}}, ""))
	add("prefix-sharing directory names", manifestDoc("1", []mPkg{{mA, "d1", "", ""}, {mAalias, "d1x", "", ""}}, ""))
	add("prefix-sharing directory names (longer address owns the shorter dir)", manifestDoc("1", []mPkg{{mAalias, "d1", "", ""}, {mA, "d1x", "", ""}}, ""))
	// three package entries: every way of spreading three addresses (one repeated) over two directories, in every order
	for _, a1 := range []string{mA, mAalias, mB} {
		for _, a2 := range []string{mA, mAalias, mB} {
			for _, a3 := range []string{mA, mAalias} {
				for _, ds := range [][3]string{{"d1", "d1", "d2"}, {"d1", "d2", "d1"}, {"d2", "d1", "d1"}, {"d1", "d1", "d1"}, {"d1", "d2", "d2"}} {
					add(fmt.Sprintf("three entries %s->%s %s->%s %s->%s", a1, ds[0], a2, ds[1], a3, ds[2]), manifestDoc("1", []mPkg{{a1, ds[0], "", ""}, {a2, ds[1], "", ""}, {a3, ds[2], "", ""}}, ""))
				}
			}
		}
	}
	add("three aliases", manifestDoc("1", []mPkg{{mA, "d1", "", ""}, {mAalias, "d1", "", ""}, {mB, "d1", "", ""}}, ""))
	return
}

func RunC18(tier string) int {
	rep := core.NewReport("C18", tier)
	thorough := tier == "thorough"
	docs := c18Docs(thorough)
	pool := core.NewPool(0)
	opened := 0
	pool.Map("manifest", len(docs), func(i int) any { return docs[i] }, func(i int, r core.Result) {
		rep.Evaluations++
		desc := "manifest " + docs[i].Desc + " doc=" + docs[i].Doc
		if r.Hung || r.Crashed {
			rep.Violation("sourcebundle.OpenDir/hang-or-crash", desc, "manifest", docs[i])
			return
		}
		var out ManifestOut
		core.MustOut(r, &out)
		if out.Panic != "" {
			rep.Outcome("panic")
			rep.Violation("sourcebundle.Bundle/panic", desc+" :: "+out.Panic, "manifest", docs[i])
			return
		}
		if out.OpenErr != "" {
			rep.Outcome("refused")
			return
		}
		opened++
		rep.Outcome("opened")
		rep.Nontrivial(fmt.Sprint(docs[i].Doc))
		// a manifest naming a directory with a separator, "." or ".." must be refused
		var parsed struct {
			Packages []struct {
				Local string `json:"local"`
			} `json:"packages"`
		}
		json.Unmarshal([]byte(docs[i].Doc), &parsed)
		for _, p := range parsed.Packages {
			if p.Local == "." || p.Local == ".." || strings.Contains(p.Local, "/") || p.Local == "" {
				rep.Violation("sourcebundle.OpenDir/bad-directory-name-accepted", fmt.Sprintf("%s :: local %q accepted", desc, p.Local), "manifest", docs[i])
			}
		}
		for _, f := range out.Facts {
			sig := "sourcebundle.Bundle/"
			switch {
			case strings.Contains(f, "not strictly inside"):
				sig += "lookup-leaves-bundle"
			case strings.Contains(f, "maps back to"), strings.Contains(f, "cannot be looked up again"):
				sig += "reverse-lookup-not-inverse"
			default:
				sig += "outside-path-attributed-to-package"
			}
			rep.Violation(sig, desc+" :: "+f, "manifest", docs[i])
		}
		if i%701 == 0 {
			rep.Sample(fmt.Sprintf("%s => opened, %d forward lookups, %d inverse checks, %d refusals", docs[i].Desc, out.Lookups, out.Inverse, out.Refused))
		}
	})
	{
		// E4: every answer of every lookup must be the same under every iteration order of the maps the library ranges over
		margs := make([]any, len(docs))
		for i := range docs {
			margs[i] = docs[i]
		}
		mapOrdBudget = 240 * time.Second
		if thorough {
			mapOrdBudget = 20 * time.Minute
		}
		st := &mapOrdStats{}
		exploreMapOrders(0, "manifest", margs, 1, func(_ int, raw json.RawMessage) string { return canonArena(raw) }, // relative probe paths contain the scratch directory name
			func(i int, choices []int, base, got string, arg MapOrdArg) {
				rep.Violation("sourcebundle.Bundle/answer-depends-on-map-iteration-order", fmt.Sprintf("manifest %s doc=%s :: with map orders %v: %s", docs[i].Desc, docs[i].Doc, choices, firstDiff(base, got)), "mapord", arg)
			}, st)
		rep.Evaluations += st.Runs
		rep.Extra["map_orders"] = st.summary()
		if st.Capped {
			rep.Exhaustive = false
		}
		fmt.Printf("  map-order part: documents=%d runs=%d choice points=%d differing=%d\n", st.Tasks, st.Runs, st.Points, st.Differing)
	}
	rep.States = len(docs)
	rep.Transitions = rep.Evaluations
	rep.Extra["documents"] = len(docs)
	rep.Extra["opened"] = opened
	_ = versions.All
	rep.Rule = "manifest documents generated field-wise (format number variants; 1-2 package entries over 6 sources × 14 directory names incl. '', '.', '..', '../x', 'a/b', '/abs', 'd1/', backslash forms; registry entries with valid/garbage package, version keys, source addresses incl. '..' sub-paths, deprecation shapes; duplicates and aliases sharing a directory) written to a bundle directory and opened by the real OpenDir; if it opens: every forward lookup (remote and registry × sub-paths) must lie strictly below the root, directory names with separator/'.'/'..'/empty must have been refused, SourceForLocalPath∘LocalPathForSource must be the identity on paths inside package directories (incl. relative spellings, x/../y and aliases), and root/manifest/unknown/outside paths must be refused. Distinct = documents that opened."
	return rep.Finish()
}

func init() {
	c19ExtraParts = append(c19ExtraParts, func(rep *core.Report, pool *core.Pool, thorough bool, record func(site, desc string, r core.Result, panicMsg string, sys string, arg any)) map[string]any {
		docs := c18Docs(thorough)
		valid := manifestDoc("1", []mPkg{{mA, "d1", "abc", "msg"}, {mB, "d2", "", ""}},
			`{"source":"`+mReg+`","versions":{"1.0.0":{"source":"`+mA+`//m","deprecation":{"Version":"1.0.0","Reason":"r","Link":"l"}}}}`)
		for c := 0; c <= len(valid); c++ {
			docs = append(docs, ManifestArg{Doc: valid[:c], Desc: fmt.Sprintf("valid manifest truncated at %d", c), Dirs: []string{"d1"}})
		}
		// JSON type confusion: replace each value by another JSON type
		for _, repl := range []string{"null", "[]", "{}", "1", `"s"`, "true", "[[]]", `{"a":{}}`, "1e999", `"\ud800"`} {
			for _, target := range []string{`"` + mA + `"`, `"d1"`, `"abc"`, `{"git_commit_id":"abc","git_commit_message":"msg"}`, `"1.0.0":{`, `{"Version":"1.0.0","Reason":"r","Link":"l"}`, `[{"source"`, "1,"} {
				if strings.Contains(valid, target) {
					docs = append(docs, ManifestArg{Doc: strings.Replace(valid, target, repl+map[bool]string{true: ",", false: ""}[target == "1,"], 1), Desc: "type confusion " + target + " -> " + repl, Dirs: []string{"d1"}})
				}
			}
		}
		docs = append(docs, ManifestArg{Doc: "", Desc: "empty file"}, ManifestArg{Doc: "\x00\xff", Desc: "binary"}, ManifestArg{Doc: strings.Repeat("[", 100000), Desc: "deep nesting"},
			ManifestArg{Doc: `{"terraform_source_bundle":1,"packages":[` + strings.Repeat(`{"source":"`+mA+`","local":"d1"},`, 5000) + `{"source":"` + mB + `","local":"d2"}]}`, Desc: "5000 duplicate entries", Dirs: []string{"d1"}})
		n := 0
		pool.Map("manifest", len(docs), func(i int) any { return docs[i] }, func(i int, r core.Result) {
			var out ManifestOut
			if !r.Hung && !r.Crashed && r.Panic == "" && r.Err == "" {
				json.Unmarshal(r.Out, &out)
				rep.Outcome("returned")
				rep.Nontrivial("manifest:" + fmt.Sprint(out.OpenErr == "", out.Pkgs, len(out.Facts)))
				n++
			}
			record("sourcebundle.OpenDir+lookups", "manifest "+docs[i].Desc, r, out.Panic, "manifest", docs[i])
		})
		rep.States += len(docs)
		fmt.Printf("  part manifests: documents=%d\n", len(docs))
		return map[string]any{"part": "manifest-documents", "documents": len(docs)}
	})
}
