//go:build verifmap

package sys

import (
	"encoding/json"
	"fmt"

	"github.com/hashicorp/go-slug/verifshim/vmap"

	"verif/mc/core"
)

// Worker side of engine E4 (map iteration orders). Only present in the binary
// built with cmd/instrmap's overlay: the task names another handler and the
// order to take at every range-over-map statement the library executes.
func init() {
	core.Register("mapord", func(raw json.RawMessage) (any, error) {
		var arg MapOrdArg
		if err := json.Unmarshal(raw, &arg); err != nil {
			return nil, err
		}
		h, ok := core.HandlerFor(arg.Sys)
		if !ok {
			return nil, fmt.Errorf("mapord: no handler %q", arg.Sys)
		}
		vmap.Begin(arg.Choices)
		var out any
		var err error
		var pnc any
		func() {
			defer func() { pnc = recover() }()
			out, err = h(arg.Arg)
		}()
		pts, bad := vmap.End()
		res := MapOrdOut{Bad: bad}
		for _, p := range pts {
			res.Points = append(res.Points, MapPoint{Site: p.Site, N: p.N, Alts: p.Alts, Chose: p.Chose})
		}
		if pnc != nil {
			res.Panic = fmt.Sprint(pnc)
			return res, nil
		}
		if err != nil {
			res.Err = err.Error()
			return res, nil
		}
		b, merr := json.Marshal(out)
		if merr != nil {
			return nil, merr
		}
		res.Out = b
		return res, nil
	})
}
