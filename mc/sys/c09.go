package sys

import (
	"fmt"
	"reflect"
	"strings"
	"time"

	"verif/mc/core"
)

// C09 — a bundle survives being re-opened and archived.

const P7 = "https://example.com/a%2Fb.tgz" // escaped package path, sub-path with a space

func c09Deviations() [][]TNode {
	single := []TNode{
		{Path: "lnk", Kind: "link", Target: "marker-root"},
		{Path: "m/up", Kind: "link", Target: "../marker-root"},
		{Path: "emptyd", Kind: "dir"},
		{Path: "m/emptyd/deeper", Kind: "dir"},
		{Path: "sec", Kind: "file", Body: "s", Mode: 0600},
		{Path: "exe", Kind: "file", Body: "#!/bin/sh", Mode: 0755},
		{Path: "ro", Kind: "file", Body: "r", Mode: 0444},
		{Path: "big", Kind: "file", Body: strings.Repeat("0123456789", 200)},
		{Path: "sp ace/ü", Kind: "file", Body: "u"},
		{Path: "rod", Kind: "dir", Mode: 0555},
		{Path: "gw", Kind: "dir", Mode: 0775},
		{Path: "ww/inner", Kind: "file", Body: "w"},
		{Path: "ww", Kind: "dir", Mode: 0777},
		{Path: ".hidden/.x", Kind: "file", Body: "h"},
		{Path: "lnk2", Kind: "link", Target: "./marker-root"},        // link texts that are not in Clean form
		{Path: "m/up2", Kind: "link", Target: "../m/../marker-root"}, // must survive the archive verbatim
		{Path: ".terraform/providers/p", Kind: "file", Body: "p"},    // excluded by the default rules: the file goes, the directories stay
		{Path: ".terraform/modules/mm/x", Kind: "file", Body: "x"},
	}
	out := [][]TNode{nil}
	for _, s := range single {
		out = append(out, []TNode{s})
	}
	out = append(out, single)
	// a package whose own rule file re-includes what the default rules exclude
	out = append(out, []TNode{{Path: ".terraformignore", Kind: "file", Body: "!.git/\n"}, {Path: ".git/HEAD", Kind: "file", Body: "ref"}, {Path: ".terraform/providers/p", Kind: "file", Body: "p"}})
	return out
}

func diffBundleOut(a, b *BundleOut, what string) []string {
	var d []string
	cmp := func(name string, x, y any) {
		if !reflect.DeepEqual(x, y) {
			d = append(d, fmt.Sprintf("%s: %s differs: %v vs %v", what, name, x, y))
		}
	}
	cmp("checksum", a.Checksum, b.Checksum)
	cmp("remote packages", a.Packages, b.Packages)
	cmp("package metadata", a.Meta, b.Meta)
	cmp("registry packages", a.RegPkgs, b.RegPkgs)
	cmp("registry versions", a.RegVers, b.RegVers)
	cmp("registry source addresses", a.RegSrc, b.RegSrc)
	cmp("registry deprecations", a.RegDep, b.RegDep)
	cmp("manifest bytes", a.Manifest, b.Manifest)
	if len(a.Lookups) != len(b.Lookups) {
		d = append(d, what+": lookup count differs")
	} else {
		for i := range a.Lookups {
			x, y := a.Lookups[i], b.Lookups[i]
			if x.Rel != y.Rel || (x.Err == "") != (y.Err == "") || x.Exists != y.Exists || x.IsDir != y.IsDir || x.Canon != y.Canon || x.Inverse != y.Inverse {
				d = append(d, fmt.Sprintf("%s: lookup of %s differs: {%s %v %q inv=%s err=%s} vs {%s %v %q inv=%s err=%s}", what, x.Probe, x.Rel, x.Exists, oneLine(x.Canon), x.Inverse, x.Err, y.Rel, y.Exists, oneLine(y.Canon), y.Inverse, y.Err))
			}
		}
	}
	if a.TreeCanon != b.TreeCanon {
		al, bl := strings.Split(a.TreeCanon, "\n"), strings.Split(b.TreeCanon, "\n")
		am := map[string]bool{}
		for _, l := range al {
			am[l] = true
		}
		bm := map[string]bool{}
		for _, l := range bl {
			bm[l] = true
		}
		var only []string
		for _, l := range al {
			if !bm[l] {
				only = append(only, "-"+l)
			}
		}
		for _, l := range bl {
			if !am[l] {
				only = append(only, "+"+l)
			}
		}
		d = append(d, what+": directory trees differ: "+strings.Join(only, " "))
	}
	return d
}

func oneLine(s string) string {
	s = strings.ReplaceAll(s, "\n", ",")
	if len(s) > 200 {
		s = s[:200] + "…"
	}
	return s
}

func RunC09(tier string) int {
	rep := core.NewReport("C09", tier)
	thorough := tier == "thorough"
	maxEdges := 1
	addIdx := []int{0, 2, 4, 5, 6, 8}
	if thorough {
		maxEdges = 2
		addIdx = []int{0, 1, 2, 3, 4, 5, 6, 7, 8, 10}
	}
	scs, _ := enumerateScenarios(2, maxEdges, addIdx, time.Now().Add(60*time.Second))
	var good []scenario
	for _, s := range scs {
		if Closure(s.world(), s.adds).Error == "" {
			good = append(good, s)
		}
	}
	devs := c09Deviations()
	type job struct {
		sc  scenario
		dev int
		p7  bool
	}
	var jobs []job
	for i, s := range good {
		if thorough {
			for d := range devs {
				jobs = append(jobs, job{s, d, false})
			}
		} else {
			jobs = append(jobs, job{s, i % len(devs), false}, job{s, len(devs) - 1, false})
		}
	}
	// addresses exercising escapes: one dedicated family
	for d := range devs {
		jobs = append(jobs, job{scenario{adds: []AddCall{{Kind: "remote", Addr: ws(P7, "s p"), Finder: "F1"}, {Kind: "registry", Addr: R1 + "//m", Allowed: "all", Finder: "F2"}, {Kind: "final", Addr: R1 + "@1.0.0", Finder: "F1"}}}, d, true})
	}
	pool := core.NewPool(0)
	args := make([]BuildArg, len(jobs))
	pool.Map("build", len(jobs), func(i int) any {
		j := jobs[i]
		w := j.sc.world()
		w.Pkgs = append(w.Pkgs, WPkg{Addr: P7, Locs: []string{"", "s p"}, MetaID: "7777777777777777777777777777777777777777", MetaMsg: "multi\nline \"message\" é"})
		// the fetcher of P2 answers with a non-nil but EMPTY metadata object
		for k := range w.Pkgs {
			if w.Pkgs[k].Addr == P2 {
				w.Pkgs[k].NilMeta, w.Pkgs[k].MetaID, w.Pkgs[k].MetaMsg = false, "", ""
			}
		}
		for k := range w.Pkgs {
			w.Pkgs[k].Files = append(append([]TNode{}, w.Pkgs[k].Files...), devs[j.dev]...)
		}
		c := Closure(w, j.sc.adds)
		probes := probesFor(c)
		for p := range c.Packages {
			probes = append(probes, mustRemote(p).Package().String(), ws(p, "m"), ws(p, "lnk"), ws(p, "emptyd"), ws(p, "nonexistent/x"))
		}
		args[i] = BuildArg{World: w, Adds: j.sc.adds, Probes: probes, Reopen: true}
		return args[i]
	}, func(i int, r core.Result) {
		rep.Evaluations++
		j := jobs[i]
		desc := fmt.Sprintf("%s package-extras=[%s]", j.sc, TreeString(devs[j.dev]))
		if r.Hung || r.Crashed {
			rep.Violation("sourcebundle/hang-or-crash", desc+" "+firstLines(r.Stderr, 3), "build", args[i])
			return
		}
		var out BuildOut
		core.MustOut(r, &out)
		if out.Bundle == nil {
			rep.NoVerdict++
			rep.Outcome("build-failed(no verdict)")
			return
		}
		rep.Outcome("built-reopened-extracted")
		rep.Nontrivial(out.Bundle.Manifest + out.Bundle.TreeCanon)
		var diffs []string
		if out.ReopenErr != "" {
			diffs = append(diffs, "OpenDir of the finished bundle fails: "+out.ReopenErr)
		} else {
			diffs = append(diffs, diffBundleOut(out.Bundle, out.Reopened, "re-opened")...)
		}
		if out.ExtractErr != "" {
			diffs = append(diffs, "archive round trip fails: "+out.ExtractErr)
		} else {
			diffs = append(diffs, diffBundleOut(out.Bundle, out.Extracted, "extracted")...)
		}
		if len(diffs) > 0 {
			sig := "sourcebundle/reopen-or-archive-differs/"
			switch {
			case strings.Contains(diffs[0], "OpenDir of"):
				sig += "opendir-fails"
			case strings.Contains(diffs[0], "archive round trip fails"):
				sig += "archive-round-trip-fails"
			case strings.Contains(diffs[0], "re-opened"):
				sig += "reopened"
			default:
				sig += "extracted"
			}
			rep.Violation(sig, desc+" :: "+strings.Join(diffs, " ;; "), "build", args[i])
		}
		if i%211 == 0 {
			rep.Sample(desc + " => checksum " + out.Bundle.Checksum)
		}
	})
	rep.States = len(jobs)
	rep.Transitions = rep.Evaluations * 3
	rep.Rule = "error-free worlds of the C08 enumeration (<=2 Add calls, <=1/2 edges) plus an address family with an escaped package path, a sub-path containing a space, queries and registry sub-paths, × package-tree deviations (relative links, empty and nested empty directories, modes 0600/0755/0444/0555, 2 kB file, non-ASCII and spaced names, dot dirs); for each: bundle from Close vs OpenDir of the same directory vs ExtractArchive(WriteArchive); every accessor, every lookup (path relative to the root, existence, content with permission bits), the reverse lookup and a recursive tree comparison must agree. Distinct = manifest+tree."
	return rep.Finish()
}
