// Package fsx: file-system observation helpers (snapshots, kernel-like link
// resolution, tree descriptions) used by the oracles.
package fsx

import (
	"crypto/sha256"
	"encoding/hex"
	"fmt"
	"os"
	"path/filepath"
	"sort"
	"strings"
	"syscall"
)

// Snapshot describes every inode below root (root itself included as "."),
// skipping the subtrees named in exclude (absolute paths; the excluded path
// itself is skipped too). atime is left out on purpose (hashing moves it).
func Snapshot(root string, exclude ...string) map[string]string {
	out := map[string]string{}
	var walk func(p string)
	walk = func(p string) {
		for _, e := range exclude {
			if p == e {
				return
			}
		}
		fi, err := os.Lstat(p)
		rel, _ := filepath.Rel(root, p)
		if err != nil {
			out[rel] = "ERR " + err.Error()
			return
		}
		st := fi.Sys().(*syscall.Stat_t)
		d := fmt.Sprintf("%s %04o uid=%d size=%d mtime=%d.%09d ctime=%d.%09d ino=%d nlink=%d", typeOf(fi), fi.Mode().Perm()|fi.Mode()&(os.ModeSetuid|os.ModeSetgid|os.ModeSticky),
			st.Uid, fi.Size(), st.Mtim.Sec, st.Mtim.Nsec, st.Ctim.Sec, st.Ctim.Nsec, st.Ino, st.Nlink)
		switch {
		case fi.Mode()&os.ModeSymlink != 0:
			t, _ := os.Readlink(p)
			d += " -> " + t
		case fi.Mode().IsRegular():
			b, err := os.ReadFile(p)
			if err != nil {
				d += " unreadable"
			} else {
				h := sha256.Sum256(b)
				d += " sha=" + hex.EncodeToString(h[:8])
			}
		}
		if fi.IsDir() {
			// directory size on tmpfs changes with entry count: that is a legit signal too
			ents, err := os.ReadDir(p)
			if err != nil {
				d += " unlistable"
			}
			out[rel] = d
			for _, e := range ents {
				walk(filepath.Join(p, e.Name()))
			}
			return
		}
		out[rel] = d
	}
	walk(root)
	return out
}

func typeOf(fi os.FileInfo) string {
	m := fi.Mode()
	switch {
	case m&os.ModeSymlink != 0:
		return "link"
	case m.IsDir():
		return "dir"
	case m.IsRegular():
		return "file"
	case m&os.ModeNamedPipe != 0:
		return "fifo"
	case m&os.ModeSocket != 0:
		return "sock"
	case m&os.ModeDevice != 0:
		return "dev"
	}
	return "other"
}

// Diff lists the differences between two snapshots, sorted.
func Diff(a, b map[string]string) []string {
	var out []string
	for k, v := range a {
		w, ok := b[k]
		if !ok {
			out = append(out, "removed "+k+" ("+v+")")
		} else if v != w {
			out = append(out, "changed "+k+": "+v+" => "+w)
		}
	}
	for k, w := range b {
		if _, ok := a[k]; !ok {
			out = append(out, "created "+k+" ("+w+")")
		}
	}
	sort.Strings(out)
	return out
}

// Resolve follows path the way the kernel does (component by component, with
// Lstat/Readlink, 40 hop limit) and continues lexically past the first missing
// component. It returns the absolute clean resulting path. loop=true if the
// hop limit was exceeded.
func Resolve(path string) (res string, loop bool) {
	if !filepath.IsAbs(path) {
		panic("Resolve: need absolute path")
	}
	hops := 0
	cur := "/"
	rest := strings.Split(path, "/")
	missing := false
	for len(rest) > 0 {
		c := rest[0]
		rest = rest[1:]
		switch c {
		case "", ".":
			continue
		case "..":
			cur = filepath.Dir(cur)
			continue
		}
		next := filepath.Join(cur, c)
		if missing {
			cur = next
			continue
		}
		fi, err := os.Lstat(next)
		if err != nil {
			missing = true
			cur = next
			continue
		}
		if fi.Mode()&os.ModeSymlink != 0 {
			hops++
			if hops > 40 {
				return next, true
			}
			t, err := os.Readlink(next)
			if err != nil {
				missing = true
				cur = next
				continue
			}
			tparts := strings.Split(t, "/")
			if strings.HasPrefix(t, "/") {
				cur = "/"
			}
			rest = append(tparts, rest...)
			continue
		}
		cur = next
	}
	return cur, false
}

// Inside reports whether p == root or p is below root (both absolute, clean).
func Inside(root, p string) bool {
	root = filepath.Clean(root)
	p = filepath.Clean(p)
	return p == root || strings.HasPrefix(p, root+"/")
}

// Node is the comparable description of one tree node.
type Node struct {
	Type   string `json:"t"`
	Perm   uint32 `json:"p"`
	Size   int64  `json:"s,omitempty"`
	Sha    string `json:"h,omitempty"`
	Target string `json:"l,omitempty"`
	MSec   int64  `json:"ms"`
	MNsec  int64  `json:"mn,omitempty"`
}

// Tree describes every node below root (root excluded), keyed by relative path.
func Tree(root string) map[string]Node {
	out := map[string]Node{}
	filepath.Walk(root, func(p string, fi os.FileInfo, err error) error {
		if p == root {
			return nil
		}
		rel, _ := filepath.Rel(root, p)
		if err != nil || fi == nil {
			out[rel] = Node{Type: "ERR"}
			return nil
		}
		n := Node{Type: typeOf(fi), Perm: uint32(fi.Mode().Perm()), MSec: fi.ModTime().Unix(), MNsec: int64(fi.ModTime().Nanosecond())}
		switch n.Type {
		case "file":
			n.Size = fi.Size()
			b, err := os.ReadFile(p)
			if err != nil {
				n.Sha = "unreadable"
			} else {
				h := sha256.Sum256(b)
				n.Sha = hex.EncodeToString(h[:8])
			}
		case "link":
			n.Target, _ = os.Readlink(p)
		}
		out[rel] = n
		return nil
	})
	return out
}

// Canon renders a tree deterministically. withTimes selects whether mtimes are included.
func Canon(t map[string]Node, withTimes bool) string {
	keys := make([]string, 0, len(t))
	for k := range t {
		keys = append(keys, k)
	}
	sort.Strings(keys)
	var sb strings.Builder
	for _, k := range keys {
		n := t[k]
		fmt.Fprintf(&sb, "%s:%s:%o", k, n.Type, n.Perm)
		if n.Type == "file" {
			fmt.Fprintf(&sb, ":%d:%s", n.Size, n.Sha)
		}
		if n.Type == "link" {
			fmt.Fprintf(&sb, ":->%s", n.Target)
		}
		if withTimes && n.Type != "link" {
			fmt.Fprintf(&sb, ":@%d.%09d", n.MSec, n.MNsec)
		}
		sb.WriteByte('\n')
	}
	return sb.String()
}


// Tree1 describes a single node (no recursion).
func Tree1(p string) Node {
	fi, err := os.Lstat(p)
	if err != nil {
		return Node{Type: "ERR"}
	}
	n := Node{Type: typeOf(fi), Perm: uint32(fi.Mode().Perm()), MSec: fi.ModTime().Unix(), MNsec: int64(fi.ModTime().Nanosecond())}
	switch n.Type {
	case "file":
		n.Size = fi.Size()
		b, err := os.ReadFile(p)
		if err != nil {
			n.Sha = "unreadable"
		} else {
			h := sha256.Sum256(b)
			n.Sha = hex.EncodeToString(h[:8])
		}
	case "link":
		n.Target, _ = os.Readlink(p)
	}
	return n
}
