package ref

import "strings"

// Segment-wise matcher for the documented .terraformignore language. No
// regular expressions. A verdict is defined for a path's OWN name only.

type GRule struct {
	Neg  bool
	Segs []string // pattern segments; "**" spans segments
	Raw  string
}

// ParseRules reads rule-file text (after the built-in rules).
func ParseRules(text string) []GRule {
	var out []GRule
	for _, line := range strings.Split(text, "\n") {
		line = strings.TrimRight(line, "\r")
		if len(line) == 0 {
			continue
		}
		line = strings.TrimSpace(line)
		if line == "" || line[0] == '#' {
			continue
		}
		r := GRule{Raw: line}
		if line[0] == '!' {
			r.Neg = true
			line = line[1:]
		}
		if line == "" {
			continue
		}
		dir := strings.HasSuffix(line, "/")
		anch := strings.HasPrefix(line, "/")
		line = strings.TrimPrefix(line, "/")
		line = strings.TrimSuffix(line, "/")
		var segs []string
		if !anch {
			segs = append(segs, "**")
		}
		if line != "" {
			segs = append(segs, strings.Split(line, "/")...)
		}
		if dir {
			segs = append(segs, "**")
		}
		r.Segs = segs
		out = append(out, r)
	}
	return out
}

// Builtin rules: .git/ , .terraform/ , !.terraform/modules/
func Builtin() []GRule {
	return []GRule{
		{Segs: []string{"**", ".terraform", "**"}, Raw: ".terraform/"},
		{Neg: true, Segs: []string{"**", ".terraform", "modules", "**"}, Raw: "!.terraform/modules/"},
		{Segs: []string{"**", ".git", "**"}, Raw: ".git/"},
	}
}

// Excluded gives the last-match-wins verdict for a file path (slash separated, relative).
func Excluded(rules []GRule, p string) bool {
	segs := strings.Split(p, "/")
	ex := false
	for _, r := range rules {
		if matchSegs(r.Segs, segs) {
			ex = !r.Neg
		}
	}
	return ex
}

func matchSegs(pat, segs []string) bool {
	if len(pat) == 0 {
		return len(segs) == 0
	}
	if pat[0] == "**" {
		if len(pat) == 1 {
			return len(segs) >= 1 // trailing "**": everything below
		}
		for k := 0; k <= len(segs); k++ {
			if matchSegs(pat[1:], segs[k:]) {
				return true
			}
		}
		return false
	}
	if len(segs) == 0 {
		return false
	}
	if !matchSeg(pat[0], segs[0]) {
		return false
	}
	return matchSegs(pat[1:], segs[1:])
}

// matchSeg: '*' any run, '?' one char, '\x' literal x, everything else literal.
func matchSeg(pat, s string) bool {
	pr, sr := []rune(pat), []rune(s)
	var rec func(i, j int) bool
	rec = func(i, j int) bool {
		if i == len(pr) {
			return j == len(sr)
		}
		switch pr[i] {
		case '*':
			for k := j; k <= len(sr); k++ {
				if rec(i+1, k) {
					return true
				}
			}
			return false
		case '?':
			return j < len(sr) && rec(i+1, j+1)
		case '\\':
			if i+1 < len(pr) {
				return j < len(sr) && sr[j] == pr[i+1] && rec(i+2, j+1)
			}
			return j < len(sr) && sr[j] == '\\' && rec(i+1, j+1)
		default:
			return j < len(sr) && sr[j] == pr[i] && rec(i+1, j+1)
		}
	}
	return rec(0, 0)
}
