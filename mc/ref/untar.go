// Package ref holds the deliberately boring reference models used as oracles.
package ref

import (
	"archive/tar"
	"path"
	"strings"

	"verif/mc/tarx"
)

// UNode is one node of the tree a sequential reading of an archive prescribes.
type UNode struct {
	Type     string // file dir link
	Body     string
	Perm     uint32
	MSec     int64
	MNsec    int64
	Target   string
	Explicit bool // named by an entry (implicit parents have no prescribed mode/time)
}

type UntarResult struct {
	Tree      map[string]*UNode
	Undefined string // non-empty: the property does not prescribe a result (reason)
	MustFail  string // non-empty: an entry of an unrepresentable type is present
}

func normName(n string) string {
	n = strings.TrimPrefix(n, "/")
	return path.Clean(n)
}

// Untar interprets decoded entries sequentially.
func Untar(entries []tarx.Decoded) UntarResult {
	r := UntarResult{Tree: map[string]*UNode{}}
	undef := func(s string) {
		if r.Undefined == "" {
			r.Undefined = s
		}
	}
	for _, e := range entries {
		switch e.Type {
		case tar.TypeXGlobalHeader, tar.TypeXHeader:
			continue
		case tar.TypeReg, tar.TypeRegA, tar.TypeDir, tar.TypeSymlink:
		default:
			if r.MustFail == "" {
				r.MustFail = "entry " + e.Name + " has unrepresentable type " + string(e.Type)
			}
			continue
		}
		if e.Name == "" {
			continue
		}
		p := normName(e.Name)
		if p == "." || p == ".." || strings.HasPrefix(p, "../") {
			undef("entry names the root or leaves it: " + e.Name)
			continue
		}
		// parents
		parts := strings.Split(p, "/")
		ok := true
		for i := 1; i < len(parts); i++ {
			pp := strings.Join(parts[:i], "/")
			n, exists := r.Tree[pp]
			if !exists {
				r.Tree[pp] = &UNode{Type: "dir"}
			} else if n.Type != "dir" {
				undef("entry " + e.Name + " lies below a " + n.Type)
				ok = false
				break
			}
		}
		if !ok {
			continue
		}
		old, exists := r.Tree[p]
		switch e.Type {
		case tar.TypeReg, tar.TypeRegA:
			if exists && old.Type != "file" {
				undef("type change at " + p)
				continue
			}
			r.Tree[p] = &UNode{Type: "file", Body: e.Body, Perm: uint32(e.Mode & 0777), MSec: e.MSec, MNsec: e.MNsec, Explicit: true}
		case tar.TypeDir:
			if exists && old.Type != "dir" {
				undef("type change at " + p)
				continue
			}
			r.Tree[p] = &UNode{Type: "dir", Perm: uint32(e.Mode & 0777), MSec: e.MSec, MNsec: e.MNsec, Explicit: true}
		case tar.TypeSymlink:
			if exists {
				undef("link entry at existing path " + p)
				continue
			}
			r.Tree[p] = &UNode{Type: "link", Target: e.Linkname, Explicit: true}
		}
	}
	return r
}
