package core

import (
	"crypto/sha256"
	"encoding/hex"
	"encoding/json"
	"fmt"
	"os"
	"path/filepath"
	"sort"
	"strconv"
	"strings"
	"time"
)

var VerifDir = func() string {
	if d := os.Getenv("VERIF_DIR"); d != "" {
		return d
	}
	return "/verif"
}()

// OutDir is where evidence/ and replays/ are written (VERIF_OUT overrides; the
// registered commands never set it, the author's mutant tooling does).
var OutDir = func() string {
	if d := os.Getenv("VERIF_OUT"); d != "" {
		return d
	}
	return VerifDir
}()

type KnownFinding struct {
	Property string `json:"property"`
	Sig      string `json:"sig"`  // call site + attribution signature computed by the check
	What     string `json:"what"` // human description
	Example  any    `json:"example,omitempty"`
}

type knownFile struct {
	Findings []KnownFinding `json:"findings"`
	Fixed    []string       `json:"fixed"`
}

type violation struct {
	Sig    string `json:"sig"`
	Desc   string `json:"desc"`
	Sys    string `json:"sys,omitempty"`
	Arg    any    `json:"arg,omitempty"`
	Replay string `json:"-"`
}

type Report struct {
	ID    string
	Tier  string
	Level string
	Seed  int
	start time.Time

	Evaluations int // executions of real code
	States      int
	Transitions int
	Rule        string
	Exhaustive  bool
	Assumptions []string
	Extra       map[string]any
	samples     []any
	distinct    map[string]struct{}
	outcomes    map[string]int

	known     []KnownFinding
	knownHits map[string]int
	knownEx   map[string]string
	viols     []violation
	violSigs  map[string]int
	NoVerdict int
}

func NewReport(id, tier string) *Report {
	r := &Report{ID: id, Tier: tier, Level: "model_checking", start: time.Now(),
		Extra: map[string]any{}, distinct: map[string]struct{}{}, outcomes: map[string]int{},
		knownHits: map[string]int{}, knownEx: map[string]string{}, violSigs: map[string]int{}, Exhaustive: true}
	if s := os.Getenv("VERIF_SEED"); s != "" {
		r.Seed, _ = strconv.Atoi(s)
	}
	b, err := os.ReadFile(filepath.Join(VerifDir, "known_findings.json"))
	if err == nil {
		var kf knownFile
		if e := json.Unmarshal(b, &kf); e != nil {
			Fatalf("known_findings.json: %v", e)
		}
		for _, k := range kf.Findings {
			if k.Property == id {
				r.known = append(r.known, k)
			}
		}
	}
	return r
}

// Sample records up to 12 example cases.
func (r *Report) Sample(v any) {
	if len(r.samples) < 12 {
		r.samples = append(r.samples, v)
	}
}

// Nontrivial records the canonical outcome of a case that exercised the mechanism.
func (r *Report) Nontrivial(key string) {
	h := sha256.Sum256([]byte(key))
	r.distinct[string(h[:12])] = struct{}{}
}

// Outcome tallies a coarse outcome class (printed, for reading).
func (r *Report) Outcome(class string) { r.outcomes[class]++ }

func (r *Report) isKnown(sig string) bool {
	for _, k := range r.known {
		if k.Sig == sig {
			return true
		}
	}
	return false
}

// Violation records a violation with attribution signature sig. If the
// (property, sig) pair is listed in known_findings.json it is tallied as a
// known finding, otherwise it becomes a VIOLATION with a replay file.
func (r *Report) Violation(sig, desc, sys string, arg any) {
	if r.isKnown(sig) {
		r.knownHits[sig]++
		if ex, ok := r.knownEx[sig]; !ok || len(desc) < len(ex) {
			r.knownEx[sig] = desc
		}
		return
	}
	r.violSigs[sig]++
	if r.violSigs[sig] == 1 && os.Getenv("VERIF_DEBUG") != "" {
		fmt.Printf("DEBUG first case of %s: %s\n", sig, oneLine(desc, 900))
	}
	if r.violSigs[sig] > 3 || len(r.viols) >= 25 {
		return // keep at most 3 replays per signature
	}
	r.viols = append(r.viols, violation{Sig: sig, Desc: desc, Sys: sys, Arg: arg})
}

func (r *Report) HasViolations() bool { return len(r.violSigs) > 0 }

// Finish writes evidence, prints KNOWN-FINDING / VIOLATION lines and returns the exit code.
func (r *Report) Finish() int {
	wall := time.Since(r.start).Seconds()
	nviol := 0
	for _, n := range r.violSigs {
		nviol += n
	}
	sigs := make([]string, 0)
	for _, k := range r.known {
		if n := r.knownHits[k.Sig]; n > 0 {
			fmt.Printf("KNOWN-FINDING: property=%s %s — %s [cases attributed this run: %d; shortest: %s]\n", r.ID, k.Sig, k.What, n, oneLine(r.knownEx[k.Sig], 300))
		} else {
			fmt.Printf("note: listed finding %s/%s not reached in this run (tier %s)\n", r.ID, k.Sig, r.Tier)
		}
	}
	os.MkdirAll(filepath.Join(OutDir, "replays"), 0755)
	if old, _ := filepath.Glob(filepath.Join(OutDir, "replays", r.ID+"-*.json")); len(old) > 0 {
		for _, f := range old {
			os.Remove(f)
		}
	}
	for i := range r.viols {
		v := &r.viols[i]
		b, _ := json.MarshalIndent(map[string]any{"property": r.ID, "sig": v.Sig, "desc": v.Desc, "sys": v.Sys, "arg": v.Arg}, "", " ")
		h := sha256.Sum256(b)
		v.Replay = filepath.Join(OutDir, "replays", fmt.Sprintf("%s-%s.json", r.ID, hex.EncodeToString(h[:6])))
		os.WriteFile(v.Replay, b, 0644)
		fmt.Printf("VIOLATION property=%s replay=%s\n", r.ID, v.Replay)
		fmt.Printf("  sig=%s %s\n", v.Sig, oneLine(v.Desc, 600))
		sigs = append(sigs, v.Sig)
	}
	for s, n := range r.violSigs {
		fmt.Printf("  violation signature %q: %d cases\n", s, n)
	}
	cov := map[string]any{
		"states":                        r.States,
		"transitions":                   r.Transitions,
		"traces_validated_against_impl": r.Evaluations,
		"evaluations":                   r.Evaluations,
		"distinct_nontrivial":           len(r.distinct),
		"rule":                          r.Rule,
		"samples":                       r.samples,
		"exhaustive":                    r.Exhaustive,
		"outcome_classes":               r.outcomes,
		"no_verdict":                    r.NoVerdict,
		"known_finding_cases":           r.knownHits,
	}
	for k, v := range r.Extra {
		cov[k] = v
	}
	if len(r.samples) == 0 {
		cov["samples"] = []any{"(none)"}
	}
	r.Assumptions = append(r.Assumptions, "trusted base: Go runtime and standard library, kernel path resolution, tmpfs; bounds and alphabets as stated in coverage.rule")
	ev := map[string]any{
		"property_id": r.ID, "tier": r.Tier, "seed": r.Seed, "level": r.Level,
		"coverage": cov, "assumptions": r.Assumptions, "wall_s": wall, "violations": nviol,
	}
	b, _ := json.MarshalIndent(ev, "", " ")
	os.MkdirAll(filepath.Join(OutDir, "evidence"), 0755)
	if err := os.WriteFile(filepath.Join(OutDir, "evidence", r.ID+".json"), b, 0644); err != nil {
		Fatalf("write evidence: %v", err)
	}
	keys := make([]string, 0, len(r.outcomes))
	for k := range r.outcomes {
		keys = append(keys, k)
	}
	sort.Strings(keys)
	var oc []string
	for _, k := range keys {
		oc = append(oc, fmt.Sprintf("%s=%d", k, r.outcomes[k]))
	}
	fmt.Printf("%s %s: executions=%d states=%d transitions=%d distinct_nontrivial=%d exhaustive=%v no_verdict=%d wall=%.1fs\n  outcomes: %s\n",
		r.ID, r.Tier, r.Evaluations, r.States, r.Transitions, len(r.distinct), r.Exhaustive, r.NoVerdict, wall, strings.Join(oc, " "))
	if len(r.distinct) <= 1 {
		fmt.Printf("WARNING: %d distinct non-trivial outcomes — exploration may be vacuous\n", len(r.distinct))
	}
	if nviol > 0 {
		return 1
	}
	return 0
}

func oneLine(s string, n int) string {
	s = strings.ReplaceAll(s, "\n", " | ")
	if len(s) > n {
		s = s[:n] + "…"
	}
	return s
}

// Budget is a global wall-clock budget: when it expires, systems stop
// expanding, set Exhaustive=false and still exit 0.
type Budget struct{ deadline time.Time }

func NewBudget(d time.Duration) *Budget { return &Budget{time.Now().Add(d)} }
func (b *Budget) Expired() bool         { return time.Now().After(b.deadline) }
