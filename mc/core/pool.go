// Package core: worker-subprocess pool, evidence writer, known findings.
//
// The master process enumerates cases; every case is executed on the real
// go-slug code inside a worker subprocess (same binary, "worker" sub-command).
// Subprocesses are used because cwd and uid are process-global and because a
// fatal stack overflow / blocked open(2) must kill one worker, not the check.
package core

import (
	"bufio"
	"bytes"
	"encoding/json"
	"fmt"
	"io"
	"os"
	"os/exec"
	"path/filepath"
	"runtime"
	"runtime/debug"
	"sync"
	"syscall"
	"time"
)

type Handler func(arg json.RawMessage) (any, error)

var handlers = map[string]Handler{}

func Register(name string, h Handler) { handlers[name] = h }

// HandlerFor returns a registered handler (used by wrappers that run another handler).
func HandlerFor(name string) (Handler, bool) { h, ok := handlers[name]; return h, ok }

type task struct {
	ID  int             `json:"id"`
	Sys string          `json:"sys"`
	Arg json.RawMessage `json:"arg"`
}

// Result of one task.
type Result struct {
	ID      int             `json:"id"`
	Out     json.RawMessage `json:"out,omitempty"`
	Err     string          `json:"err,omitempty"`   // harness-internal error
	Panic   string          `json:"panic,omitempty"` // recovered panic escaping the handler
	Crashed bool            `json:"crashed,omitempty"`
	Hung    bool            `json:"hung,omitempty"`
	Stderr  string          `json:"stderr,omitempty"`
}

// ArenaRoot is where per-task scratch trees live (tmpfs).
func ArenaRoot() string {
	if r := os.Getenv("VERIF_ARENA"); r != "" {
		return r
	}
	return os.TempDir()
}

var arenaSeq int

// NewArena creates a fresh scratch directory for one task (worker side).
func NewArena() string {
	arenaSeq++
	d := filepath.Join(ArenaRoot(), fmt.Sprintf("w%d-%d", os.Getpid(), arenaSeq))
	os.RemoveAll(d)
	if err := os.MkdirAll(d, 0777); err != nil {
		panic("INTERNAL: cannot create arena: " + err.Error())
	}
	os.Chmod(d, 0777)
	return d
}

// RemoveArena removes a scratch tree even if it contains mode-0000 directories.
func RemoveArena(d string) {
	if os.RemoveAll(d) == nil {
		return
	}
	filepath.Walk(d, func(p string, info os.FileInfo, err error) error {
		if info != nil && info.IsDir() {
			os.Chmod(p, 0700)
		}
		return nil
	})
	filepath.Walk(d, func(p string, info os.FileInfo, err error) error {
		if info != nil && info.IsDir() {
			os.Chmod(p, 0700)
		}
		return nil
	})
	os.RemoveAll(d)
}

// WorkerMain is the body of the "worker" sub-command.
func WorkerMain() {
	debug.SetMaxStack(64 << 20)
	syscall.Umask(022)
	in := bufio.NewReaderSize(os.Stdin, 1<<20)
	out := bufio.NewWriterSize(os.Stdout, 1<<20)
	for {
		line, err := in.ReadBytes('\n')
		if len(line) > 0 {
			var t task
			if e := json.Unmarshal(line, &t); e != nil {
				fmt.Fprintln(os.Stderr, "INTERNAL: bad task:", e)
				os.Exit(3)
			}
			r := runTask(t)
			b, e := json.Marshal(r)
			if e != nil {
				b, _ = json.Marshal(Result{ID: t.ID, Err: "marshal: " + e.Error()})
			}
			out.Write(b)
			out.WriteByte('\n')
			out.Flush()
		}
		if err != nil {
			return
		}
	}
}

func runTask(t task) (r Result) {
	r.ID = t.ID
	h, ok := handlers[t.Sys]
	if !ok {
		r.Err = "no handler " + t.Sys
		return
	}
	defer func() {
		if p := recover(); p != nil {
			r.Panic = fmt.Sprintf("%v\n%s", p, debug.Stack())
		}
	}()
	v, err := h(t.Arg)
	if err != nil {
		r.Err = err.Error()
		return
	}
	b, err := json.Marshal(v)
	if err != nil {
		r.Err = "marshal: " + err.Error()
		return
	}
	r.Out = b
	return
}

type worker struct {
	cmd    *exec.Cmd
	stdin  io.WriteCloser
	stdout *bufio.Reader
	stderr *tailBuf
}

type tailBuf struct {
	mu  sync.Mutex
	buf []byte
}

func (t *tailBuf) Write(p []byte) (int, error) {
	t.mu.Lock()
	defer t.mu.Unlock()
	t.buf = append(t.buf, p...)
	if len(t.buf) > 8192 {
		// keep head (first lines carry the fatal error) and tail
		h := append([]byte{}, t.buf[:3072]...)
		t.buf = append(append(h, []byte("\n...\n")...), t.buf[len(t.buf)-3072:]...)
	}
	return len(p), nil
}
func (t *tailBuf) String() string { t.mu.Lock(); defer t.mu.Unlock(); return string(t.buf) }

// Pool of worker subprocesses.
type Pool struct {
	N       int
	UID     int // 0 = same as master; otherwise setuid to this uid/gid
	Timeout time.Duration
	MemKB   int // ulimit -v for workers (0 = none)
	Cwd     string
	Env     []string
	Binary  string // defaults to os.Executable()
	Fresh   bool   // a new worker process for every task (history checks need a pristine process)

	Crashes int
	Hangs   int
}

func NewPool(uid int) *Pool {
	n := runtime.NumCPU()
	if v := os.Getenv("VERIF_WORKERS"); v != "" {
		fmt.Sscan(v, &n)
	}
	return &Pool{N: n, UID: uid, Timeout: 60 * time.Second}
}

var masterArena string

// MasterArena creates (once) the arena root for this master process.
func MasterArena() string {
	if masterArena != "" {
		return masterArena
	}
	base := "/dev/shm"
	if st, err := os.Stat(base); err != nil || !st.IsDir() {
		base = os.TempDir()
	}
	d := filepath.Join(base, fmt.Sprintf("verif-%d", os.Getpid()))
	os.RemoveAll(d)
	if err := os.MkdirAll(d, 0777); err != nil {
		Fatalf("cannot create arena root: %v", err)
	}
	os.Chmod(d, 0777)
	masterArena = d
	os.Setenv("VERIF_ARENA", d)
	return d
}

func CleanupMasterArena() {
	if masterArena != "" {
		RemoveArena(masterArena)
	}
}

func Fatalf(format string, a ...any) {
	fmt.Fprintf(os.Stderr, "INTERNAL: "+format+"\n", a...)
	CleanupMasterArena()
	os.Exit(2)
}

var binCopy string
var binMu sync.Mutex

func workerBinary() string {
	binMu.Lock()
	defer binMu.Unlock()
	if binCopy != "" {
		return binCopy
	}
	exe, err := os.Executable()
	if err != nil {
		Fatalf("executable: %v", err)
	}
	dst := filepath.Join(MasterArena(), "vcheck-worker")
	b, err := os.ReadFile(exe)
	if err != nil {
		Fatalf("read exe: %v", err)
	}
	if err := os.WriteFile(dst, b, 0755); err != nil {
		Fatalf("copy exe: %v", err)
	}
	os.Chmod(dst, 0755)
	binCopy = dst
	return dst
}

var binCopies = map[string]string{}

// arenaCopyOf copies another worker binary (scheduler, race or map-order build) into the master arena:
// the directory it was built in need not be reachable by an unprivileged worker (e.g. a checkout below /root).
func arenaCopyOf(path string) string {
	binMu.Lock()
	defer binMu.Unlock()
	if c, ok := binCopies[path]; ok {
		return c
	}
	b, err := os.ReadFile(path)
	if err != nil {
		Fatalf("read worker binary %s: %v", path, err)
	}
	dst := filepath.Join(MasterArena(), fmt.Sprintf("vcheck-worker-%d-%s", len(binCopies), filepath.Base(path)))
	if err := os.WriteFile(dst, b, 0755); err != nil {
		Fatalf("copy worker binary: %v", err)
	}
	os.Chmod(dst, 0755)
	binCopies[path] = dst
	return dst
}

func (p *Pool) spawn() *worker {
	bin := p.Binary
	if bin == "" {
		bin = workerBinary()
	} else if p.UID != 0 {
		bin = arenaCopyOf(bin)
	}
	var cmd *exec.Cmd
	if p.MemKB > 0 {
		cmd = exec.Command("/bin/sh", "-c", fmt.Sprintf("ulimit -v %d; exec %q worker", p.MemKB, bin))
	} else {
		cmd = exec.Command(bin, "worker")
	}
	cmd.Env = append(os.Environ(), "VERIF_ARENA="+MasterArena(), "GOMAXPROCS=2", "GOTRACEBACK=single")
	cmd.Env = append(cmd.Env, p.Env...)
	if p.Cwd != "" {
		cmd.Dir = p.Cwd
	} else {
		cmd.Dir = MasterArena()
	}
	if p.UID != 0 {
		cmd.SysProcAttr = &syscall.SysProcAttr{Credential: &syscall.Credential{Uid: uint32(p.UID), Gid: uint32(p.UID)}}
		cmd.Env = append(cmd.Env, "HOME=/nonexistent")
	}
	stdin, err := cmd.StdinPipe()
	if err != nil {
		Fatalf("pipe: %v", err)
	}
	stdout, err := cmd.StdoutPipe()
	if err != nil {
		Fatalf("pipe: %v", err)
	}
	tb := &tailBuf{}
	cmd.Stderr = tb
	if err := cmd.Start(); err != nil {
		Fatalf("start worker: %v", err)
	}
	return &worker{cmd: cmd, stdin: stdin, stdout: bufio.NewReaderSize(stdout, 1<<20), stderr: tb}
}

func (w *worker) kill() {
	w.stdin.Close()
	w.cmd.Process.Kill()
	w.cmd.Wait()
}

// Map runs handler sys on every arg in parallel in worker subprocesses and
// calls fn (serialised) with each result. Order of callbacks is arbitrary;
// index i identifies the arg.
func (p *Pool) Map(sys string, n int, arg func(i int) any, fn func(i int, r Result)) {
	if n == 0 {
		return
	}
	nw := p.N
	if nw > n {
		nw = n
	}
	var next int
	var mu, cbmu sync.Mutex
	var wg sync.WaitGroup
	for k := 0; k < nw; k++ {
		wg.Add(1)
		go func() {
			defer wg.Done()
			var w *worker
			defer func() {
				if w != nil {
					w.stdin.Close()
					done := make(chan struct{})
					go func() { w.cmd.Wait(); close(done) }()
					select {
					case <-done:
					case <-time.After(5 * time.Second):
						w.cmd.Process.Kill()
						<-done
					}
				}
			}()
			for {
				mu.Lock()
				i := next
				next++
				mu.Unlock()
				if i >= n {
					return
				}
				if w == nil {
					w = p.spawn()
				}
				ab, err := json.Marshal(arg(i))
				if err != nil {
					Fatalf("marshal arg: %v", err)
				}
				tb, _ := json.Marshal(task{ID: i, Sys: sys, Arg: ab})
				tb = append(tb, '\n')
				var res Result
				type rd struct {
					line []byte
					err  error
				}
				ch := make(chan rd, 1)
				ww := w
				go func() {
					if _, err := ww.stdin.Write(tb); err != nil {
						ch <- rd{nil, err}
						return
					}
					line, err := ww.stdout.ReadBytes('\n')
					ch <- rd{line, err}
				}()
				select {
				case x := <-ch:
					if x.err != nil || len(bytes.TrimSpace(x.line)) == 0 {
						w.kill()
						res = Result{ID: i, Crashed: true, Stderr: w.stderr.String()}
						w = nil
						mu.Lock()
						p.Crashes++
						mu.Unlock()
					} else if e := json.Unmarshal(x.line, &res); e != nil {
						Fatalf("bad result line from worker: %v: %.200s", e, x.line)
					}
				case <-time.After(p.Timeout):
					w.kill()
					res = Result{ID: i, Hung: true, Stderr: w.stderr.String()}
					w = nil
					mu.Lock()
					p.Hangs++
					mu.Unlock()
				}
				if p.Fresh && w != nil {
					w.kill()
					w = nil
				}
				cbmu.Lock()
				fn(i, res)
				cbmu.Unlock()
			}
		}()
	}
	wg.Wait()
}

// MustOut decodes a result, treating harness errors as fatal.
func MustOut(r Result, v any) {
	if r.Err != "" {
		Fatalf("worker task %d: %s", r.ID, r.Err)
	}
	if r.Crashed || r.Hung || r.Panic != "" {
		Fatalf("worker task %d crashed/hung/panicked unexpectedly: crashed=%v hung=%v panic=%.2000s stderr=%.2000s", r.ID, r.Crashed, r.Hung, r.Panic, r.Stderr)
	}
	if err := json.Unmarshal(r.Out, v); err != nil {
		Fatalf("decode result: %v", err)
	}
}
