// Package explore: explicit-state, level-synchronous breadth-first search over
// operation histories. A successor is "fresh instance + replay of the history
// reaching the parent + one more op", always on the real code.
package explore

import "time"

type Stats struct {
	States      int   // distinct states (by key) or histories when not deduplicating
	Transitions int   // executions
	Terminal    int   // states not expanded because the run ended (error)
	Depth       int   // deepest level completed
	Frontier    []int // frontier size per level
	Capped      bool
}

// Exec runs every history of the batch on the real code and reports, for each,
// the canonical state key ("" = never merge) and whether it is terminal.
type Exec func(hists [][]int, handle func(i int, key string, terminal bool))

// BFS explores all histories over ops 0..alpha-1 up to maxDepth. With dedup,
// a history whose key was seen before is not expanded (the caller supplies the
// argument why merged states have equal futures).
func BFS(alpha func(hist []int) []int, maxDepth int, dedup bool, deadline time.Time, exec Exec) Stats {
	var st Stats
	seen := map[string]struct{}{}
	frontier := [][]int{{}}
	for d := 1; d <= maxDepth; d++ {
		if !deadline.IsZero() && time.Now().After(deadline) {
			st.Capped = true
			break
		}
		batch := make([][]int, 0, len(frontier))
		for _, h := range frontier {
			for _, o := range alpha(h) {
				nh := make([]int, len(h)+1)
				copy(nh, h)
				nh[len(h)] = o
				batch = append(batch, nh)
			}
		}
		var next [][]int
		keys := make([]string, len(batch))
		terms := make([]bool, len(batch))
		got := make([]bool, len(batch))
		exec(batch, func(i int, key string, terminal bool) {
			keys[i], terms[i], got[i] = key, terminal, true
		})
		// processed in index order so that the representative history kept
		// for each state is deterministic (the lexicographically first one)
		for i := range batch {
			if !got[i] {
				continue
			}
			st.Transitions++
			if terms[i] {
				st.Terminal++
			}
			if dedup && keys[i] != "" {
				if _, ok := seen[keys[i]]; ok {
					continue
				}
				seen[keys[i]] = struct{}{}
			}
			st.States++
			if !terms[i] {
				next = append(next, batch[i])
			}
		}
		st.Frontier = append(st.Frontier, len(next))
		st.Depth = d
		frontier = next
		if len(frontier) == 0 {
			break
		}
	}
	return st
}
