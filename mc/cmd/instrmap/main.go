// instrmap generates a `go build -overlay` description in which every
// `for ... range <map>` statement of go-slug iterates in an order the harness
// chooses: the loop is rewritten to range over vmap.Keys(m, "file:line"),
// which returns the keys in a canonical order permuted by the next harness
// choice. /repo is not touched.
//
// Types are needed to tell a map from a slice: the packages are type-checked
// with go/types against the compiler's export data (`go list -export`).
//
// usage: instrmap <repo> <outdir> <vmap.go>   → writes <outdir>/overlay.json
package main

import (
	"bytes"
	"encoding/json"
	"fmt"
	"go/ast"
	"go/build"
	"go/importer"
	"go/parser"
	"go/token"
	"go/types"
	"io"
	"os"
	"os/exec"
	"path/filepath"
	"sort"
	"strings"
)

const modPath = "github.com/hashicorp/go-slug"
const vmapPath = modPath + "/verifshim/vmap"

var pkgDirs = []string{".", "internal/ignorefiles", "internal/unpackinfo", "sourceaddrs", "sourcebundle"}

func fail(a ...any) {
	fmt.Fprintln(os.Stderr, append([]any{"instrmap:"}, a...)...)
	os.Exit(1)
}

type edit struct {
	off  int
	del  int
	text string
}

func main() {
	if len(os.Args) != 4 {
		fail("usage: instrmap <repo> <outdir> <vmap.go>")
	}
	repo, outdir, shim := os.Args[1], os.Args[2], os.Args[3]
	os.MkdirAll(outdir, 0755)

	// export data of every dependency (and of the repository's own packages)
	cmd := exec.Command("go", "list", "-export", "-deps", "-f", "{{.ImportPath}}={{.Export}}", "./...")
	cmd.Dir = repo
	cmd.Env = append(os.Environ(), "GOFLAGS=")
	cmd.Stderr = os.Stderr
	out, err := cmd.Output()
	if err != nil {
		fail("go list -export:", err)
	}
	exports := map[string]string{}
	for _, line := range strings.Split(strings.TrimSpace(string(out)), "\n") {
		if i := strings.Index(line, "="); i > 0 && line[i+1:] != "" {
			exports[line[:i]] = line[i+1:]
		}
	}
	fset := token.NewFileSet()
	lookup := func(path string) (io.ReadCloser, error) {
		f, ok := exports[path]
		if !ok {
			return nil, fmt.Errorf("no export data for %s", path)
		}
		return os.Open(f)
	}
	imp := importer.ForCompiler(fset, "gc", lookup)

	overlay := map[string]string{}
	sites := 0
	for _, d := range pkgDirs {
		ipath := modPath
		if d != "." {
			ipath += "/" + d
		}
		ents, err := os.ReadDir(filepath.Join(repo, d))
		if err != nil {
			fail(err)
		}
		var files []*ast.File
		var paths []string
		srcs := map[string][]byte{}
		for _, e := range ents {
			n := e.Name()
			if e.IsDir() || !strings.HasSuffix(n, ".go") || strings.HasSuffix(n, "_test.go") {
				continue
			}
			if ok, err := build.Default.MatchFile(filepath.Join(repo, d), n); err != nil || !ok {
				continue
			}
			p := filepath.Join(repo, d, n)
			src, err := os.ReadFile(p)
			if err != nil {
				fail(err)
			}
			f, err := parser.ParseFile(fset, p, src, parser.ParseComments|parser.SkipObjectResolution)
			if err != nil {
				fail(err)
			}
			files = append(files, f)
			paths = append(paths, p)
			srcs[p] = src
		}
		info := &types.Info{Types: map[ast.Expr]types.TypeAndValue{}}
		conf := types.Config{Importer: imp, Error: func(err error) {}}
		if _, err := conf.Check(ipath, fset, files, info); err != nil {
			// type errors in files excluded by build constraints we do not model would
			// make the map test unreliable: be loud
			fail("type-check", ipath, ":", err)
		}
		for i, f := range files {
			p := paths[i]
			src := srcs[p]
			var edits []edit
			labelled := map[ast.Stmt]bool{}
			ast.Inspect(f, func(n ast.Node) bool {
				if ls, ok := n.(*ast.LabeledStmt); ok {
					labelled[ls.Stmt] = true
				}
				return true
			})
			ast.Inspect(f, func(n ast.Node) bool {
				rs, ok := n.(*ast.RangeStmt)
				if !ok {
					return true
				}
				tv, ok := info.Types[rs.X]
				if !ok || tv.Type == nil {
					return true
				}
				if _, isMap := tv.Type.Underlying().(*types.Map); !isMap {
					return true
				}
				pos := fset.Position(rs.For)
				site := fmt.Sprintf("%s:%d", relTo(repo, pos.Filename), pos.Line)
				off := func(p token.Pos) int { return fset.Position(p).Offset }
				xText := string(src[off(rs.X.Pos()):off(rs.X.End())])
				pure := isPure(rs.X)
				if !pure && labelled[rs] {
					fail(site, ": labelled range over a map expression with possible side effects; not supported")
				}
				mName := xText
				pre, post := "", ""
				if !pure {
					mName = "vmapM__"
					pre = "{ vmapM__ := " + xText + "; "
					post = " }"
				}
				keyText, valText := "", ""
				if rs.Key != nil {
					keyText = string(src[off(rs.Key.Pos()):off(rs.Key.End())])
				}
				if rs.Value != nil {
					valText = string(src[off(rs.Value.Pos()):off(rs.Value.End())])
				}
				var head, prologue string
				keysCall := fmt.Sprintf("vmap.Keys(%s, %q)", mName, site)
				switch {
				case rs.Tok == token.DEFINE || rs.Key == nil:
					k := keyText
					if k == "" || k == "_" {
						k = "vmapK__"
						if valText == "" || valText == "_" {
							head = "for range " + keysCall + " {"
							break
						}
					}
					head = "for _, " + k + " := range " + keysCall + " {"
					if valText != "" && valText != "_" {
						prologue = fmt.Sprintf(" %s, vmapOK__ := %s[%s]; if !vmapOK__ { continue };", valText, mName, k)
					} else {
						prologue = fmt.Sprintf(" if _, vmapOK__ := %s[%s]; !vmapOK__ { continue };", mName, k)
					}
				default: // assignment form
					head = "for _, vmapK__ := range " + keysCall + " {"
					prologue = fmt.Sprintf(" if _, vmapOK__ := %s[vmapK__]; !vmapOK__ { continue };", mName)
					if keyText != "" && keyText != "_" {
						prologue += " " + keyText + " = vmapK__;"
					}
					if valText != "" && valText != "_" {
						prologue += " " + valText + " = " + mName + "[vmapK__];"
					}
				}
				start := off(rs.For)
				lbrace := off(rs.Body.Lbrace)
				edits = append(edits, edit{start, lbrace + 1 - start, pre + head + prologue})
				if post != "" {
					edits = append(edits, edit{off(rs.Body.Rbrace) + 1, 0, post})
				}
				sites++
				return true
			})
			if len(edits) == 0 {
				continue
			}
			// import, right after the package clause
			edits = append(edits, edit{fset.Position(f.Name.End()).Offset, 0, "; import vmap " + fmt.Sprintf("%q", vmapPath)})
			sort.Slice(edits, func(a, b int) bool { return edits[a].off > edits[b].off })
			buf := append([]byte{}, src...)
			for _, e := range edits {
				var nb bytes.Buffer
				nb.Write(buf[:e.off])
				nb.WriteString(e.text)
				nb.Write(buf[e.off+e.del:])
				buf = nb.Bytes()
			}
			rel := relTo(repo, p)
			dst := filepath.Join(outdir, strings.ReplaceAll(rel, "/", "__"))
			if err := os.WriteFile(dst, buf, 0644); err != nil {
				fail(err)
			}
			overlay[p] = dst
		}
	}
	overlay[filepath.Join(repo, "verifshim", "vmap", "vmap.go")] = shim
	b, _ := json.MarshalIndent(map[string]any{"Replace": overlay}, "", " ")
	if err := os.WriteFile(filepath.Join(outdir, "overlay.json"), b, 0644); err != nil {
		fail(err)
	}
	fmt.Printf("instrmap: %d map-range sites rewritten in %d files\n", sites, len(overlay)-1)
}

func relTo(repo, p string) string {
	r, err := filepath.Rel(repo, p)
	if err != nil {
		return p
	}
	return r
}

// isPure: identifiers and selector chains can be evaluated twice.
func isPure(e ast.Expr) bool {
	switch x := e.(type) {
	case *ast.Ident:
		return true
	case *ast.SelectorExpr:
		return isPure(x.X)
	case *ast.ParenExpr:
		return isPure(x.X)
	}
	return false
}
