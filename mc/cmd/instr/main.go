// instr generates a `go build -overlay` description that injects the vsync
// shim into go-slug without touching /repo:
//   - "sync" imports of the instrumented packages are redirected to vsync;
//   - vsync.Point("file:line") is inserted before every statement that
//     mentions a package-level variable of these packages (as identifier, as
//     pkg.Name from a sibling package, or through a one-step local alias).
//
// usage: instr <repo> <outdir> <vsync.go>   → writes <outdir>/overlay.json
package main

import (
	"bytes"
	"encoding/json"
	"fmt"
	"go/ast"
	"go/format"
	"go/parser"
	"go/token"
	"os"
	"path/filepath"
	"sort"
	"strconv"
	"strings"
)

const modPath = "github.com/hashicorp/go-slug"
const vsyncPath = modPath + "/verifshim/vsync"

var pkgDirs = []string{".", "internal/ignorefiles", "internal/unpackinfo", "sourcebundle", "sourceaddrs"}

type pkgInfo struct {
	dir     string
	ipath   string
	files   map[string]*ast.File
	vars    map[string]bool
	methods map[string]bool // names of methods declared in the package (recv.m(...) is a call, not a field access)
}

func main() {
	if len(os.Args) != 4 {
		fmt.Fprintln(os.Stderr, "usage: instr <repo> <outdir> <vsync.go>")
		os.Exit(2)
	}
	repo, outdir, shim := os.Args[1], os.Args[2], os.Args[3]
	os.MkdirAll(outdir, 0755)
	fset := token.NewFileSet()
	pkgs := map[string]*pkgInfo{}
	for _, d := range pkgDirs {
		ip := modPath
		if d != "." {
			ip += "/" + d
		}
		pi := &pkgInfo{dir: d, ipath: ip, files: map[string]*ast.File{}, vars: map[string]bool{}, methods: map[string]bool{}}
		ents, err := os.ReadDir(filepath.Join(repo, d))
		if err != nil {
			fail(err)
		}
		for _, e := range ents {
			n := e.Name()
			if e.IsDir() || !strings.HasSuffix(n, ".go") || strings.HasSuffix(n, "_test.go") {
				continue
			}
			p := filepath.Join(repo, d, n)
			f, err := parser.ParseFile(fset, p, nil, parser.ParseComments)
			if err != nil {
				fail(err)
			}
			pi.files[p] = f
			for _, decl := range f.Decls {
				if fd, ok := decl.(*ast.FuncDecl); ok && fd.Recv != nil {
					pi.methods[fd.Name.Name] = true
				}
			}
			for _, decl := range f.Decls {
				gd, ok := decl.(*ast.GenDecl)
				if !ok || gd.Tok != token.VAR {
					continue
				}
				for _, sp := range gd.Specs {
					for _, nm := range sp.(*ast.ValueSpec).Names {
						if nm.Name != "_" {
							pi.vars[nm.Name] = true
						}
					}
				}
			}
		}
		pkgs[ip] = pi
	}
	overlay := map[string]string{filepath.Join(repo, "verifshim", "vsync", "vsync.go"): shim}
	stats := map[string]int{}
	var ips []string
	for ip := range pkgs {
		ips = append(ips, ip)
	}
	sort.Strings(ips)
	for _, ip := range ips {
		pi := pkgs[ip]
		var paths []string
		for p := range pi.files {
			paths = append(paths, p)
		}
		sort.Strings(paths)
		for _, p := range paths {
			f := pi.files[p]
			n, changed := instrumentFile(fset, f, p, repo, pi, pkgs)
			if !changed {
				continue
			}
			stats[ip] += n
			var buf bytes.Buffer
			// keep build constraints that precede the package clause
			src, _ := os.ReadFile(p)
			for _, line := range strings.Split(string(src), "\n") {
				if strings.HasPrefix(line, "package ") {
					break
				}
				if strings.HasPrefix(line, "//go:build") || strings.HasPrefix(line, "// +build") {
					buf.WriteString(line + "\n")
				}
			}
			if buf.Len() > 0 {
				buf.WriteString("\n")
			}
			f.Comments = nil
			f.Doc = nil
			if err := format.Node(&buf, fset, f); err != nil {
				fail(fmt.Errorf("print %s: %v", p, err))
			}
			rel, _ := filepath.Rel(repo, p)
			out := filepath.Join(outdir, strings.ReplaceAll(rel, "/", "__"))
			if err := os.WriteFile(out, buf.Bytes(), 0644); err != nil {
				fail(err)
			}
			overlay[p] = out
		}
	}
	b, _ := json.MarshalIndent(map[string]any{"Replace": overlay}, "", " ")
	if err := os.WriteFile(filepath.Join(outdir, "overlay.json"), b, 0644); err != nil {
		fail(err)
	}
	sb, _ := json.Marshal(stats)
	os.WriteFile(filepath.Join(outdir, "points.json"), sb, 0644)
	fmt.Printf("instr: %d files rewritten, points per package %s\n", len(overlay)-1, sb)
}

func fail(err error) {
	fmt.Fprintln(os.Stderr, "instr:", err)
	os.Exit(1)
}

func instrumentFile(fset *token.FileSet, f *ast.File, path, repo string, pi *pkgInfo, pkgs map[string]*pkgInfo) (points int, changed bool) {
	// import names → paths
	imports := map[string]string{}
	hasSync := false
	for _, im := range f.Imports {
		ip, _ := strconv.Unquote(im.Path.Value)
		name := filepath.Base(ip)
		if im.Name != nil {
			name = im.Name.Name
		}
		imports[name] = ip
		if ip == "sync" {
			hasSync = true
			im.Path.Value = strconv.Quote(vsyncPath)
			im.Name = ast.NewIdent("sync")
			changed = true
		}
	}
	shimName := "vsync"
	if hasSync {
		shimName = "sync"
	}
	rel, _ := filepath.Rel(repo, path)

	isPkgVar := func(id *ast.Ident) bool {
		if !pi.vars[id.Name] {
			return false
		}
		if id.Obj == nil {
			return true // declared in another file of the package
		}
		if vs, ok := id.Obj.Decl.(*ast.ValueSpec); ok {
			// top-level declaration in this file?
			for _, decl := range f.Decls {
				if gd, ok := decl.(*ast.GenDecl); ok {
					for _, sp := range gd.Specs {
						if sp == vs {
							return true
						}
					}
				}
			}
		}
		return false
	}
	recvName := ""
	syncMethods := map[string]bool{"Lock": true, "Unlock": true, "RLock": true, "RUnlock": true, "TryLock": true}
	var mentions func(n ast.Node, tainted map[string]bool) bool
	mentions = func(n ast.Node, tainted map[string]bool) bool {
		if n == nil {
			return false
		}
		// a bare lock/unlock call statement is a scheduling point of its own
		if es, ok := n.(*ast.ExprStmt); ok {
			if ce, ok := es.X.(*ast.CallExpr); ok {
				if se, ok := ce.Fun.(*ast.SelectorExpr); ok && syncMethods[se.Sel.Name] && len(ce.Args) == 0 {
					return false
				}
			}
		}
		found := false
		ast.Inspect(n, func(x ast.Node) bool {
			if found {
				return false
			}
			switch v := x.(type) {
			case *ast.BlockStmt:
				return false // nested blocks are handled on their own
			case *ast.FuncLit:
				return false
			case *ast.SelectorExpr:
				if id, ok := v.X.(*ast.Ident); ok && id.Obj == nil {
					if ip, ok := imports[id.Name]; ok {
						if other, ok := pkgs[ip]; ok && other.vars[v.Sel.Name] {
							found = true
							return false
						}
					}
				}
				// the receiver counts only through its fields: recv.method(...) and a bare recv are not accesses
				if id, ok := v.X.(*ast.Ident); ok && recvName != "" && id.Name == recvName {
					if !pi.methods[v.Sel.Name] {
						found = true
					}
					return false
				}
				// still look at X (e.g. pkgvar.field)
				if mentions(v.X, tainted) {
					found = true
				}
				return false
			case *ast.Ident:
				if v.Name == recvName && recvName != "" {
					return true
				}
				if isPkgVar(v) || tainted[v.Name] {
					found = true
				}
			}
			return true
		})
		return found
	}
	header := func(st ast.Stmt) []ast.Node {
		switch v := st.(type) {
		case *ast.IfStmt:
			return []ast.Node{v.Init, v.Cond}
		case *ast.ForStmt:
			return []ast.Node{v.Init, v.Cond, v.Post}
		case *ast.RangeStmt:
			return []ast.Node{v.X}
		case *ast.SwitchStmt:
			return []ast.Node{v.Init, v.Tag}
		case *ast.TypeSwitchStmt:
			return []ast.Node{v.Init, v.Assign}
		case *ast.SelectStmt, *ast.BlockStmt, *ast.LabeledStmt:
			return nil
		}
		return []ast.Node{st}
	}
	var doList func(list []ast.Stmt, tainted map[string]bool) []ast.Stmt
	var doStmt func(st ast.Stmt, tainted map[string]bool)
	done := map[*ast.FuncLit]bool{}
	doList = func(list []ast.Stmt, tainted map[string]bool) []ast.Stmt {
		var out []ast.Stmt
		for _, st := range list {
			hit := false
			for _, h := range header(st) {
				if h != nil && !isNilNode(h) && mentions(h, tainted) {
					hit = true
				}
			}
			if hit {
				line := fset.Position(st.Pos()).Line
				call := &ast.ExprStmt{X: &ast.CallExpr{Fun: &ast.SelectorExpr{X: ast.NewIdent(shimName), Sel: ast.NewIdent("Point")},
					Args: []ast.Expr{&ast.BasicLit{Kind: token.STRING, Value: strconv.Quote(fmt.Sprintf("%s:%d", rel, line))}}}}
				out = append(out, call)
				points++
				// one-step alias taint
				if as, ok := st.(*ast.AssignStmt); ok {
					for _, l := range as.Lhs {
						if id, ok := l.(*ast.Ident); ok && id.Name != "_" && !pi.vars[id.Name] {
							tainted[id.Name] = true
						}
					}
				}
			}
			doStmt(st, tainted)
			// function literals inside this statement (e.g. the walk function a method returns)
			ast.Inspect(st, func(x ast.Node) bool {
				switch v := x.(type) {
				case *ast.BlockStmt:
					if v != nil && !isBodyOf(st, v) {
						return true
					}
					return true
				case *ast.FuncLit:
					if !done[v] {
						done[v] = true
						inner := map[string]bool{}
						for k := range tainted {
							inner[k] = true
						}
						v.Body.List = doList(v.Body.List, inner)
					}
					return false
				}
				return true
			})
			out = append(out, st)
		}
		return out
	}
	doStmt = func(st ast.Stmt, tainted map[string]bool) {
		switch v := st.(type) {
		case *ast.BlockStmt:
			v.List = doList(v.List, tainted)
		case *ast.IfStmt:
			v.Body.List = doList(v.Body.List, tainted)
			if v.Else != nil {
				doStmt(v.Else, tainted)
			}
		case *ast.ForStmt:
			v.Body.List = doList(v.Body.List, tainted)
		case *ast.RangeStmt:
			v.Body.List = doList(v.Body.List, tainted)
		case *ast.SwitchStmt:
			for _, c := range v.Body.List {
				cc := c.(*ast.CaseClause)
				cc.Body = doList(cc.Body, tainted)
			}
		case *ast.TypeSwitchStmt:
			for _, c := range v.Body.List {
				cc := c.(*ast.CaseClause)
				cc.Body = doList(cc.Body, tainted)
			}
		case *ast.SelectStmt:
			for _, c := range v.Body.List {
				cc := c.(*ast.CommClause)
				cc.Body = doList(cc.Body, tainted)
			}
		case *ast.LabeledStmt:
			doStmt(v.Stmt, tainted)
		}
	}
	for _, decl := range f.Decls {
		fd, ok := decl.(*ast.FuncDecl)
		if !ok || fd.Body == nil {
			continue
		}
		t0 := map[string]bool{}
		// a pointer receiver is an object other goroutines may share: its fields count as shared state
		// (only for the packages whose objects callers share: Packer, Builder, Bundle)
		recvName = ""
		if (pi.dir == "." || pi.dir == "sourcebundle") && fd.Recv != nil && len(fd.Recv.List) == 1 && len(fd.Recv.List[0].Names) == 1 {
			if _, isPtr := fd.Recv.List[0].Type.(*ast.StarExpr); isPtr && fd.Recv.List[0].Names[0].Name != "_" {
				recvName = fd.Recv.List[0].Names[0].Name
			}
		}
		fd.Body.List = doList(fd.Body.List, t0)
		recvName = ""
	}
	if points > 0 {
		changed = true
		if !hasSync {
			// add the import
			spec := &ast.ImportSpec{Name: ast.NewIdent("vsync"), Path: &ast.BasicLit{Kind: token.STRING, Value: strconv.Quote(vsyncPath)}}
			added := false
			for _, decl := range f.Decls {
				if gd, ok := decl.(*ast.GenDecl); ok && gd.Tok == token.IMPORT {
					gd.Specs = append(gd.Specs, spec)
					if !gd.Lparen.IsValid() {
						gd.Lparen = gd.Pos()
						gd.Rparen = gd.End()
					}
					added = true
					break
				}
			}
			if !added {
				f.Decls = append([]ast.Decl{&ast.GenDecl{Tok: token.IMPORT, Specs: []ast.Spec{spec}}}, f.Decls...)
			}
		}
	}
	return
}

func isBodyOf(st ast.Stmt, b *ast.BlockStmt) bool { return false }

func isNilNode(n ast.Node) bool {
	switch v := n.(type) {
	case ast.Stmt:
		return v == nil
	case ast.Expr:
		return v == nil
	}
	return false
}
