package main

import (
	"encoding/json"
	"fmt"
	"os"

	"verif/mc/core"
	"verif/mc/sys"
)

func main() {
	if len(os.Args) < 2 {
		fmt.Fprintln(os.Stderr, "usage: vcheck worker | run <ID> <quick|thorough> | replay <file>")
		os.Exit(2)
	}
	switch os.Args[1] {
	case "worker":
		core.WorkerMain()
	case "run":
		if len(os.Args) < 4 {
			os.Exit(2)
		}
		fn, ok := sys.Runners[os.Args[2]]
		if !ok {
			fmt.Fprintln(os.Stderr, "INTERNAL: unknown property", os.Args[2])
			os.Exit(2)
		}
		core.MasterArena()
		code := fn(os.Args[3])
		core.CleanupMasterArena()
		os.Exit(code)
	case "replay":
		b, err := os.ReadFile(os.Args[2])
		if err != nil {
			fmt.Fprintln(os.Stderr, "INTERNAL:", err)
			os.Exit(2)
		}
		var rp struct {
			Property string          `json:"property"`
			Sig      string          `json:"sig"`
			Desc     string          `json:"desc"`
			Sys      string          `json:"sys"`
			Arg      json.RawMessage `json:"arg"`
		}
		if err := json.Unmarshal(b, &rp); err != nil {
			fmt.Fprintln(os.Stderr, "INTERNAL:", err)
			os.Exit(2)
		}
		core.MasterArena()
		uid := 0
		var probe struct {
			UID int `json:"uid"`
		}
		json.Unmarshal(rp.Arg, &probe)
		uid = probe.UID
		p := core.NewPool(uid)
		p.N = 1
		fmt.Printf("replaying %s (%s): %s\n", rp.Property, rp.Sig, rp.Desc)
		p.Map(rp.Sys, 1, func(int) any { return rp.Arg }, func(_ int, r core.Result) {
			out, _ := json.MarshalIndent(r, "", " ")
			fmt.Println(string(out))
		})
		core.CleanupMasterArena()
	default:
		os.Exit(2)
	}
}
