// Package vmap is injected into go-slug by `go build -overlay` (see
// cmd/instrmap): every `for ... range <map>` of the library asks Keys for the
// order in which to visit the keys. Without an active exploration the order is
// canonical (sorted by printed key); with one, the k-th range statement executed
// takes the permutation the harness chose for it, and every statement is
// recorded as a choice point with the number of alternatives it had.
package vmap

import (
	"fmt"
	"sort"
	"sync"
)

// Point is one executed range-over-map statement with at least two keys.
type Point struct {
	Site  string `json:"site"`
	N     int    `json:"n"`     // number of keys
	Alts  int    `json:"alts"`  // number of orders on offer (index 0 = canonical)
	Chose int    `json:"chose"` // the order taken
}

var (
	mu      sync.Mutex
	active  bool
	choices []int
	points  []Point
	bad     string
)

// Begin starts recording; choices[i] is the order for the i-th point (missing = 0).
func Begin(ch []int) {
	mu.Lock()
	defer mu.Unlock()
	active, choices, points, bad = true, append([]int{}, ch...), nil, ""
}

// End stops recording and returns the points seen; bad is non-empty when a
// choice was out of range for its point (the replayed prefix diverged).
func End() ([]Point, string) {
	mu.Lock()
	defer mu.Unlock()
	active = false
	return points, bad
}

func fact(n int) int {
	f := 1
	for i := 2; i <= n; i++ {
		f *= i
	}
	return f
}

// alternatives: every permutation up to 4 keys; beyond that the canonical
// order, its reverse, and every rotation (each key comes first once, each last once).
func alternatives(n int) int {
	if n <= 4 {
		return fact(n)
	}
	return n + 1
}

func permute(idx []int, c int) []int {
	n := len(idx)
	out := make([]int, 0, n)
	if n <= 4 {
		// c-th permutation in lexicographic order (factorial number system)
		avail := append([]int{}, idx...)
		for i := n; i >= 1; i-- {
			f := fact(i - 1)
			k := c / f
			c %= f
			out = append(out, avail[k])
			avail = append(avail[:k], avail[k+1:]...)
		}
		return out
	}
	switch {
	case c == 0:
		return idx
	case c == 1:
		for i := n - 1; i >= 0; i-- {
			out = append(out, idx[i])
		}
		return out
	default:
		r := c - 1 // rotation by 1..n-1
		return append(append(out, idx[r:]...), idx[:r]...)
	}
}

// Keys returns the keys of m in the order chosen for this visit.
func Keys[M ~map[K]V, K comparable, V any](m M, site string) []K {
	keys := make([]K, 0, len(m))
	for k := range m {
		keys = append(keys, k)
	}
	names := make([]string, len(keys))
	for i, k := range keys {
		names[i] = fmt.Sprintf("%v|%#v", k, k)
	}
	idx := make([]int, len(keys))
	for i := range idx {
		idx[i] = i
	}
	sort.Slice(idx, func(a, b int) bool { return names[idx[a]] < names[idx[b]] })
	mu.Lock()
	if active && len(keys) >= 2 {
		alts := alternatives(len(keys))
		c := 0
		if len(points) < len(choices) {
			c = choices[len(points)]
		}
		if c < 0 || c >= alts {
			bad = fmt.Sprintf("choice %d out of range at point %d (%s, %d keys, %d orders)", c, len(points), site, len(keys), alts)
			c = 0
		}
		points = append(points, Point{Site: site, N: len(keys), Alts: alts, Chose: c})
		idx = permute(idx, c)
	}
	mu.Unlock()
	out := make([]K, len(keys))
	for i, j := range idx {
		out[i] = keys[j]
	}
	return out
}
