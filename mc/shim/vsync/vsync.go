// Package vsync is injected into go-slug by `go build -overlay` (never
// committed there). It replaces "sync" in the instrumented packages and offers
// Point() for instrumented shared-variable accesses. When no exploration is
// active every operation falls through to the real sync primitives, so the
// same build also serves free-running (-race) passes.
package vsync

import (
	"fmt"
	"sync"
)

// re-exports so that `import sync ".../vsync"` keeps compiling whatever the file uses
type (
	WaitGroup = sync.WaitGroup
	Once      = sync.Once
	Map       = sync.Map
	Pool      = sync.Pool
	Cond      = sync.Cond
	Locker    = sync.Locker
)

func NewCond(l Locker) *Cond { return sync.NewCond(l) }

type thread struct {
	holding int // number of vsync mutexes currently held by this thread
	id      int
	wake    chan struct{}
	blocked func() bool // non-nil: not enabled while it returns true
	done    bool
}

// PointRec is one scheduling point of an execution.
type PointRec struct {
	Label   string
	Thread  int
	Enabled []int // canonical order: running thread first if enabled, then ascending ids
	Chose   int   // index into Enabled
	Preempt bool  // the running thread was enabled and another one was chosen
}

type sched struct {
	mu       sync.Mutex
	active   bool
	threads  []*thread
	cur      *thread
	choices  []int
	pos      int
	Points   []PointRec
	Deadlock bool
	Diverged string
	steps    int
	finished chan struct{}
	panics   []string
	warm     bool          // start-up phase: every thread runs to its first point
	parked   chan struct{} // signalled by a thread that reached its first point (or ended) while warming up
}

var s sched

// Active reports whether an exploration run is in progress.
func Active() bool { return s.active }

// Result of one controlled execution.
type Result struct {
	Points   []PointRec
	Deadlock bool
	Diverged string
	StepCap  bool
	Panics   []string
}

const stepCap = 200000

// Run executes fns as threads under the controlled scheduler following the
// choice prefix and choosing 0 (stay on the running thread / lowest id) after it.
func Run(fns []func(), choices []int) Result {
	s = sched{active: true, choices: choices, finished: make(chan struct{})}
	for i, fn := range fns {
		t := &thread{id: i, wake: make(chan struct{}, 1)}
		s.threads = append(s.threads, t)
		fn := fn
		go func() {
			<-t.wake
			func() {
				defer func() {
					if r := recover(); r != nil {
						s.panics = append(s.panics, fmt.Sprintf("thread %d: %v", t.id, r))
					}
				}()
				fn()
			}()
			t.done = true
			if s.warm {
				s.parked <- struct{}{}
				return
			}
			s.switchFrom(t, "exit")
		}()
	}
	// start-up: run every thread to its first scheduling point, in id order.
	// Code before a thread's first point touches no instrumented shared state,
	// so "not started yet" is not a distinct position worth interleaving.
	s.warm = true
	s.parked = make(chan struct{})
	for _, t := range s.threads {
		s.cur = t
		t.wake <- struct{}{}
		<-s.parked
	}
	s.warm = false
	// pick the first thread to continue through the same choice mechanism
	s.cur = nil
	s.dispatch(nil, "start")
	<-s.finished
	s.active = false
	return Result{Points: s.Points, Deadlock: s.Deadlock, Diverged: s.Diverged, StepCap: s.steps >= stepCap, Panics: s.panics}
}

func (sc *sched) enabled(running *thread) []int {
	var en []int
	if running != nil && !running.done && (running.blocked == nil || !running.blocked()) {
		en = append(en, running.id)
	}
	for _, t := range sc.threads {
		if t == running || t.done {
			continue
		}
		if t.blocked != nil && t.blocked() {
			continue
		}
		en = append(en, t.id)
	}
	return en
}

// dispatch chooses the next thread and wakes it. Returns the chosen thread (nil when finished).
func (sc *sched) dispatch(from *thread, label string) *thread {
	en := sc.enabled(from)
	if len(en) == 0 {
		alldone := true
		for _, t := range sc.threads {
			if !t.done {
				alldone = false
			}
		}
		if !alldone {
			sc.Deadlock = true
		}
		close(sc.finished)
		return nil
	}
	sc.steps++
	c := 0
	if sc.pos < len(sc.choices) {
		c = sc.choices[sc.pos]
		if c >= len(en) {
			sc.Diverged = fmt.Sprintf("choice %d out of range (%d enabled) at point %d %q", c, len(en), sc.pos, label)
			c = 0
		}
	}
	if sc.steps >= stepCap {
		c = 0
	}
	sc.pos++
	fromID := -1
	runningEnabled := false
	if from != nil {
		fromID = from.id
		runningEnabled = len(en) > 0 && en[0] == from.id
	}
	sc.Points = append(sc.Points, PointRec{Label: label, Thread: fromID, Enabled: en, Chose: c, Preempt: runningEnabled && c != 0})
	next := sc.threads[en[c]]
	sc.cur = next
	if next != from {
		next.wake <- struct{}{}
	}
	return next
}

// switchFrom is called by the running thread at a scheduling point.
func (sc *sched) switchFrom(t *thread, label string) {
	if sc.warm {
		sc.parked <- struct{}{}
		<-t.wake
		return
	}
	next := sc.dispatch(t, label)
	if next == t {
		return
	}
	if t.done {
		return
	}
	<-t.wake
}

// Point is a scheduling point (instrumented shared access, callback boundary).
func Point(label string) {
	if !s.active || s.cur == nil {
		return
	}
	// Inside a critical section the thread is atomic with respect to every
	// other thread that takes the same lock; a thread that touches the same data
	// WITHOUT the lock is a data race, which the free-running -race pass of the
	// same bodies reports. Making every protected access a scheduling point would
	// only multiply equivalent schedules.
	if s.cur.holding > 0 {
		return
	}
	s.switchFrom(s.cur, label)
}

// Mutex with scheduling points before Lock and before Unlock.
type Mutex struct {
	real sync.Mutex
	held bool
}

func (m *Mutex) Lock() {
	if !s.active || s.cur == nil {
		m.real.Lock()
		return
	}
	t := s.cur
	// A thread about to lock a held mutex is not enabled: switching to it could
	// only bounce straight back (this is the one partial-order reduction used).
	t.blocked = func() bool { return m.held }
	s.switchFrom(t, "Lock")
	for m.held {
		s.switchFrom(t, "Lock(blocked)")
	}
	t.blocked = nil
	m.held = true
	t.holding++
}

func (m *Mutex) Unlock() {
	if !s.active || s.cur == nil {
		m.real.Unlock()
		return
	}
	if !m.held {
		panic("vsync: unlock of unlocked mutex")
	}
	// The point comes BEFORE the release: afterwards the thread runs on to its
	// next point (code in between touches no instrumented shared state), where
	// it is disabled if that is a Lock of a held mutex. A point after the
	// release would leave it enabled-but-idle during another thread's whole
	// critical section, multiplying equivalent schedules.
	s.cur.holding--
	s.switchFrom(s.cur, "Unlock")
	m.held = false
}

func (m *Mutex) TryLock() bool {
	if !s.active || s.cur == nil {
		return m.real.TryLock()
	}
	s.switchFrom(s.cur, "TryLock")
	if m.held {
		return false
	}
	m.held = true
	s.cur.holding++
	return true
}

// RWMutex: readers/writer with the same scheduling discipline.
type RWMutex struct {
	real    sync.RWMutex
	writer  bool
	readers int
}

func (m *RWMutex) Lock() {
	if !s.active || s.cur == nil {
		m.real.Lock()
		return
	}
	t := s.cur
	t.blocked = func() bool { return m.writer || m.readers > 0 }
	s.switchFrom(t, "RW.Lock")
	for m.writer || m.readers > 0 {
		s.switchFrom(t, "RW.Lock(blocked)")
	}
	t.blocked = nil
	m.writer = true
	t.holding++
}

func (m *RWMutex) Unlock() {
	if !s.active || s.cur == nil {
		m.real.Unlock()
		return
	}
	s.cur.holding--
	s.switchFrom(s.cur, "RW.Unlock")
	m.writer = false
}

func (m *RWMutex) RLock() {
	if !s.active || s.cur == nil {
		m.real.RLock()
		return
	}
	t := s.cur
	t.blocked = func() bool { return m.writer }
	s.switchFrom(t, "RLock")
	for m.writer {
		s.switchFrom(t, "RLock(blocked)")
	}
	t.blocked = nil
	m.readers++
}

func (m *RWMutex) RUnlock() {
	if !s.active || s.cur == nil {
		m.real.RUnlock()
		return
	}
	s.switchFrom(s.cur, "RUnlock")
	m.readers--
}

func (m *RWMutex) RLocker() Locker { return (*rlocker)(m) }

type rlocker RWMutex

func (r *rlocker) Lock()   { (*RWMutex)(r).RLock() }
func (r *rlocker) Unlock() { (*RWMutex)(r).RUnlock() }
