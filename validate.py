#!/opt/veriftools/pyvenv/bin/python
import json,jsonschema,glob,sys
jsonschema.validate(json.load(open('/verif/MANIFEST.json')), json.load(open('/root/.vp/MANIFEST.schema.json')))
bad=False
m=json.load(open('/verif/MANIFEST.json'))
sch=json.load(open('/root/.vp/EVIDENCE.schema.json'))
for c in m['checks']:
    try:
        jsonschema.validate(json.load(open(c['evidence_file'])), sch)
    except Exception as e:
        print('EVIDENCE INVALID', c['property_id'], str(e)[:300]); bad=True
print('validated manifest +', len(m['checks']), 'evidence files')
sys.exit(1 if bad else 0)
